"""C03 - tracing never changes what the traced program does (static clauses).

R-C03.1  effect analysis: no operation that can dispatch into user-defined code is applied to a
         program value anywhere in the tracer's call graph (tracing.py -> typing.py -> compat.py)
R-C03.2  containment: everything the profile function does after the filter sits under a
         catch-all handler that neither re-raises nor leaves without `return self`
R-C03.3  trace_calls restores the previous profiler and flushes exactly once on every exit,
         restore first; trace()/run_handler use it as a context manager
R-C03.4  nothing else on trace_calls' exit path can raise: every other call there (followed into
         repository callees) is a builtin container operation or sits under a catch-all handler
R-C03.5  the stock logger's serializer touches each trace only under its catch-all handler
"""
from __future__ import annotations

import ast
from typing import Any, Dict, List, Optional, Set, Tuple

from mtsa import taint as T
from mtsa.absint import K as K_, R as R_
from mtsa.cfg import CFG, _is_catch_all
from mtsa.index import FunctionInfo, Repo, calls_in, dotted, norm, walk_no_nested
from mtsa.report import AnalysisError, Ctx

from .common import bound_argument, call_sites, cfg_of, code_selector, is_call_to, is_none, method_call, returns_of, block_entry

LEVEL = "other"
EXPLANATION = (
    "Static effect analysis for C03. A taint analysis (program values: the profile event's `arg`, everything read from "
    "frame.f_locals / frame.f_globals, raw attributes obtained with inspect.getattr_static, elements of exactly-typed "
    "containers) is propagated through the tracer's call graph (CallTracer.__call__ -> handle_call/handle_return -> "
    "get_func/_has_code/get_func_in_mro and typing.get_type/get_dict_type/shrink_types ...). Every operation whose operand "
    "is a program value is classified with a catalogue of CPython semantics: identity tests, type(), callable(), "
    "inspect.getattr_static, storing and passing are safe; isinstance/getattr/hasattr/attribute reads, ==, in, truthiness, "
    "hashing, str/repr/formatting and container-protocol calls are hookable unless dominated by an exact-type guard "
    "(`type(v) is list/set/dict/defaultdict/tuple`) or, for attribute reads, by an issubclass(type(v), <builtin descriptor "
    "class>) guard. Containment and restore/flush pairing are decided on the CFG of CallTracer.__call__ and trace_calls "
    "over all paths including exception edges. Not decided: equality of program output traced vs untraced (needs execution)."
)
M = "monkeytype.tracing"

EXACT_CONTAINERS = {"list", "set", "dict", "defaultdict", "tuple", "frozenset", "collections.defaultdict", "OrderedDict"}
BUILTIN_DESCRIPTOR_CLASSES = {"classmethod", "staticmethod", "property", "cached_property", "types.MethodType", "MethodType", "functools.cached_property"}
BUILTIN_SCALAR_CLASSES = {"str", "int", "bytes", "float", "bool"}
SAFE_CALLS = {"type", "id", "callable", "cast", "typing.cast", "inspect.getattr_static", "getattr_static", "super"}
CONVERSIONS = {"str", "repr", "bool", "hash", "int", "float", "format", "ascii", "bytes", "print", "dir", "vars", "abs", "sum", "min", "max", "any", "all"}
ITER_BUILTINS = {"len", "iter", "list", "tuple", "set", "frozenset", "sorted", "reversed", "enumerate", "zip", "next", "dict"}
CONTAINER_METHODS = {"keys", "values", "items", "__iter__", "__len__", "copy", "get"}


def _is_exact_scalar_test(e: ast.AST, var: str) -> bool:
    """`type(var) is str` (or another builtin scalar class)"""
    if isinstance(e, ast.Compare) and len(e.ops) == 1 and isinstance(e.ops[0], ast.Is):
        for x, y in ((e.left, e.comparators[0]), (e.comparators[0], e.left)):
            if is_call_to(x, "type") and len(x.args) == 1 and dotted(x.args[0]) == var and (dotted(y) or "") in BUILTIN_SCALAR_CLASSES:
                return True
    return False


def _short_circuit_exact_scalar(parent: Dict[int, ast.AST], x: ast.AST, var: str) -> bool:
    """x is evaluated only after `type(var) is <builtin scalar>` held: an earlier conjunct of an enclosing `and`, or the test
    of an enclosing conditional expression whose true branch holds x"""
    cur: ast.AST = x
    while True:
        p = parent.get(id(cur))
        if p is None or isinstance(p, ast.stmt):
            return False
        if isinstance(p, ast.BoolOp) and isinstance(p.op, ast.And):
            idx = next((i for i, v in enumerate(p.values) if v is cur), None)
            if idx is not None and any(_is_exact_scalar_test(v, var) for v in p.values[:idx]):
                return True
        if isinstance(p, ast.IfExp) and p.body is cur and _is_exact_scalar_test(p.test, var):
            return True
        if isinstance(p, (ast.Lambda, ast.GeneratorExp, ast.ListComp, ast.SetComp, ast.DictComp)):
            return False
        cur = p


def _canon_locals(fi: FunctionInfo, x: ast.AST) -> str:
    """the construct with the function's own local names blanked (a finding is the operation, whatever the variable is called)"""
    import copy
    loc = set(fi.params)
    for y in ast.walk(fi.node):
        if isinstance(y, ast.Name) and isinstance(y.ctx, (ast.Store, ast.Del)):
            loc.add(y.id)
    t = copy.deepcopy(x)
    for y in ast.walk(t):
        if isinstance(y, ast.Name) and y.id in loc:
            y.id = "_"
    return norm(t)


class Classifier:
    def __init__(self, ctx: Ctx, repo: Repo, ta: T.Taint) -> None:
        self.ctx = ctx
        self.repo = repo
        self.ta = ta
        self.exact_params: Dict[Tuple[str, str], bool] = {}
        self.ops = 0

    # -- guards ------------------------------------------------------------------
    def _type_of_var(self, e: ast.AST, g: CFG, at: int, var: str) -> bool:
        """e denotes type(<var>) (directly or through locals)."""
        roots = g.origins(e, at)
        return bool(roots) and all(is_call_to(r, "type") and len(r.args) == 1 and dotted(r.args[0]) == var for r, _, _ in roots)

    def _names_exact_container(self, fi: FunctionInfo, y: ast.AST) -> bool:
        """y names an exact builtin container class: directly (`list`), or as the loop variable of a `for` over a module-level
        table of the package whose entries at that position all are such names (`for cls, alias in ((list, List), (set, Set))`)"""
        if (dotted(y) or "") in EXACT_CONTAINERS:
            return True
        if not isinstance(y, ast.Name):
            return False
        for loop in [z for z in walk_no_nested(fi.node) if isinstance(z, ast.For)]:
            tgt = loop.target
            idx: Optional[int] = None
            if isinstance(tgt, ast.Name) and tgt.id == y.id:
                idx = -1
            elif isinstance(tgt, (ast.Tuple, ast.List)):
                idx = next((i for i, t in enumerate(tgt.elts) if isinstance(t, ast.Name) and t.id == y.id), None)
            if idx is None:
                continue
            # the name is bound by this loop only
            stores = [z for z in walk_no_nested(fi.node) if isinstance(z, ast.Name) and z.id == y.id and isinstance(z.ctx, ast.Store)]
            if len(stores) != 1 or y.id in fi.params:
                return False
            table = fi.module.constants.get(loop.iter.id) if isinstance(loop.iter, ast.Name) else (loop.iter if isinstance(loop.iter, (ast.Tuple, ast.List)) else None)
            if not isinstance(table, (ast.Tuple, ast.List)) or not table.elts:
                return False
            col = []
            for row in table.elts:
                if idx == -1:
                    col.append(row)
                elif isinstance(row, (ast.Tuple, ast.List)) and len(row.elts) > idx:
                    col.append(row.elts[idx])
                else:
                    return False
            return all((dotted(c) or "") in EXACT_CONTAINERS for c in col)
        return False

    def _class_names(self, e: ast.AST) -> List[str]:
        if isinstance(e, ast.Tuple):
            return [dotted(x) or norm(x) for x in e.elts]
        return [dotted(e) or norm(e)]

    def exact_at(self, fi: FunctionInfo, g: CFG, node: int, var: str) -> bool:
        """every path to `node` took the succeeding edge of some test `type(var) is <exact builtin container>` (or the
        failing edge of an `is not` test): `if t is list or t is set:`, `if t is not tuple: return ...` included"""
        edges: List[Tuple[int, str]] = []
        for cn in g.nodes:
            if cn.kind != "cond" or cn.id == node:
                continue
            a = cn.ast
            if isinstance(a, ast.Compare) and len(a.ops) == 1 and isinstance(a.ops[0], (ast.Is, ast.IsNot)):
                l, r = a.left, a.comparators[0]
                for x, y in ((l, r), (r, l)):
                    if self._names_exact_container(fi, y) and self._type_of_var(x, g, cn.id, var) and g.same_value(ast.Name(id=var), cn.id, node):
                        edges.append((cn.id, "T" if isinstance(a.ops[0], ast.Is) else "F"))
        if edges and node not in g.reach(g.entry, avoid_edges=edges, labels_excluded=("exc",)):
            return True
        if var in fi.params and self.param_exact(fi, var):
            # the parameter must not be rebound before use
            return all(k == "param" for _, k, _ in g.origins(ast.Name(id=var), node))
        return False

    def param_exact(self, fi: FunctionInfo, param: str) -> bool:
        key = (fi.fq, param)
        if key in self.exact_params:
            return self.exact_params[key]
        self.exact_params[key] = False
        sites = call_sites(self.repo, lambda c: c is fi)
        ok = bool(sites)
        for caller, call, callee in sites:
            a = bound_argument(callee, call, param)
            if a is None:
                continue
            if self.ta.level(a, caller) < T.VAL:
                continue
            var = dotted(a)
            g = cfg_of(caller)
            n = g.node_of(call)
            if var is None or n is None or not self.exact_at(caller, g, n.id, var):
                ok = False
        self.exact_params[key] = ok
        return ok

    def subclass_guard(self, fi: FunctionInfo, g: CFG, node: int, var: str, allowed: Set[str]) -> bool:
        """issubclass(type(var), K) holds at node with every class of K in `allowed`."""
        for cn, pol in g.guards(node):
            a = cn.ast
            if pol and is_call_to(a, "issubclass") and len(a.args) == 2 and self._type_of_var(a.args[0], g, cn.id, var):
                if all(c in allowed for c in self._class_names(a.args[1])) and g.same_value(ast.Name(id=var), cn.id, node):
                    return True
        return False

    # -- classification --------------------------------------------------------------
    def run(self, fi: FunctionInfo) -> None:
        ctx, ta = self.ctx, self.ta
        g = cfg_of(fi)
        w = fi.fq
        lv = lambda e: ta.level(e, fi)  # noqa: E731
        parent: Dict[int, ast.AST] = {}
        for p in walk_no_nested(fi.node):
            for c in ast.iter_child_nodes(p):
                parent[id(c)] = p

        def node_of(x: ast.AST) -> int:
            cur: Optional[ast.AST] = x
            while cur is not None:
                n = g.node_of(cur)
                if n is not None:
                    return n.id
                cur = parent.get(id(cur))
            return g.entry

        def is_class_level(var_expr: ast.AST, at: int) -> bool:
            v = dotted(var_expr)
            return v is not None and self.subclass_guard(fi, g, at, v, {"type"})

        def hook(x: ast.AST, what: str) -> None:
            self.ops += 1
            ctx.violate("R-C03.1", w, _canon_locals(fi, x), f"{what} on a value of the traced program can run user-defined code", node=x)

        def safe(x: ast.AST, what: str) -> None:
            self.ops += 1
            ctx.ok("R-C03.1", w, f"{what}: `{norm(x)[:80]}`")

        def truthy(e: ast.AST) -> None:
            if isinstance(e, (ast.Compare, ast.BoolOp)) or (isinstance(e, ast.UnaryOp) and isinstance(e.op, ast.Not)):
                return
            if lv(e) >= T.VAL:
                hook(e, "truth-value test (__bool__/__len__)")

        for x in walk_no_nested(fi.node):
            at = None
            if isinstance(x, ast.Call):
                d = dotted(x.func) or ""
                args_val = [a for a in list(x.args) + [k.value for k in x.keywords] if lv(a) >= T.VAL]
                if d in ("isinstance", "issubclass") and x.args and lv(x.args[0]) >= T.VAL:
                    hook(x, f"{d}() (falls back to the object's __class__ attribute)")
                    continue
                if d in ("getattr", "hasattr", "setattr", "delattr") and x.args and lv(x.args[0]) >= T.VAL:
                    hook(x, f"{d}() (__getattribute__/__getattr__/descriptors)")
                    continue
                if d in SAFE_CALLS or d.endswith(".getattr_static"):
                    if args_val:
                        safe(x, "hook-free builtin")
                    continue
                if d in ITER_BUILTINS and x.args and lv(x.args[0]) >= T.VAL:
                    var = dotted(x.args[0])
                    at = node_of(x)
                    if var is not None and self.exact_at(fi, g, at, var):
                        safe(x, "container protocol on an exactly-typed builtin container")
                    else:
                        hook(x, f"{d}() (container protocol of a possibly user-defined class)")
                    continue
                if d in CONVERSIONS and args_val and not any(isinstance(a, (ast.GeneratorExp, ast.ListComp)) for a in x.args):
                    hook(x, f"{d}() conversion")
                    continue
                if isinstance(x.func, ast.Attribute) and lv(x.func.value) >= T.VAL:
                    var = dotted(x.func.value)
                    at = node_of(x)
                    if x.func.attr in CONTAINER_METHODS and var is not None and self.exact_at(fi, g, at, var):
                        safe(x, "container method of an exactly-typed builtin container")
                    elif var is not None and _short_circuit_exact_scalar(parent, x, var):
                        safe(x, "method of an exactly-typed builtin scalar (type(v) is str held)")
                    else:
                        hook(x, f"method call .{x.func.attr}() on the object")
                    continue
                if isinstance(x.func, ast.Attribute) and x.func.attr in ("add", "discard", "remove", "index", "count", "__contains__") and args_val:
                    hook(x, f".{x.func.attr}() hashes/compares the value")
                    continue
                callee = self.repo.resolve_callee(fi, x)
                if callee is None and isinstance(x.func, (ast.Subscript, ast.Call)) and ta._table_callables(fi, x.func):
                    continue  # `TABLE[key](...)`: a direct call through an entry of a dispatch table of the package, followed by the taint analysis
                if callee is None and isinstance(x.func, ast.Name) and (fi.fq, x.func.id) in ta.fnvals:
                    continue  # a call through a local holding an entry of a module-level dispatch table: followed by the taint analysis
                if callee is None and fi.qualname.startswith("<lambda") and isinstance(x.func, ast.Attribute) and isinstance(x.func.value, ast.Name) \
                        and x.func.value.id in fi.params and ta._unique_method(x.func.attr) is not None:
                    continue  # `tracer.handle_call(frame)` in a table lambda: followed into the one method of that name
                if callee is None and args_val and all(dotted(a) is not None and _short_circuit_exact_scalar(parent, x, dotted(a) or "") for a in args_val):
                    safe(x, "library call on exactly-typed builtin scalars (their hashing/equality/formatting is the builtin's)")
                    continue
                if callee is None and args_val:
                    if isinstance(x.func, ast.Attribute) and x.func.attr in ("append", "extend", "insert", "log", "exception", "error", "debug", "info", "warning"):
                        if x.func.attr in ("exception", "error", "debug", "info", "warning"):
                            hook(x, "logging call formats the value")
                        else:
                            safe(x, "stores/passes the value")
                    elif isinstance(x.func, ast.Attribute) and dotted(x.func.value) in ("self", "cls") or (isinstance(x.func, ast.Attribute) and dotted(x.func.value) == "self.logger"):
                        safe(x, "hands the value to a configured collaborator")
                    else:
                        hook(x, f"call of `{d or norm(x.func)}` (outside the package, not in the hook-free catalogue)")
                continue
            if isinstance(x, ast.Attribute) and isinstance(x.ctx, ast.Load):
                p = parent.get(id(x))
                if isinstance(p, ast.Call) and p.func is x:
                    continue  # method call: classified above
                if x.attr in T.FRAME_CONTAINERS:
                    continue
                if lv(x.value) >= T.VAL:
                    var = dotted(x.value)
                    at = node_of(x)
                    if var is not None and self.subclass_guard(fi, g, at, var, BUILTIN_DESCRIPTOR_CLASSES):
                        safe(x, "attribute of an instance of a builtin descriptor class")
                    else:
                        hook(x, f"attribute read .{x.attr} (__getattribute__/__getattr__/descriptors)")
                continue
            if isinstance(x, ast.Compare):
                operands = [x.left] + list(x.comparators)
                for op, (a, b) in zip(x.ops, zip(operands, operands[1:])):
                    if isinstance(op, (ast.Is, ast.IsNot)):
                        continue
                    if isinstance(op, (ast.In, ast.NotIn)):
                        if lv(a) >= T.VAL:
                            hook(x, "membership test hashes/compares the value")
                        elif lv(b) >= T.VAL:
                            hook(x, "membership test calls the object's __contains__")
                        continue
                    if lv(a) >= T.VAL or lv(b) >= T.VAL:
                        hook(x, "comparison (__eq__/__lt__...)")
                continue
            if isinstance(x, (ast.If, ast.While, ast.IfExp, ast.Assert)):
                truthy(x.test)
                continue
            if isinstance(x, ast.BoolOp):
                for v in x.values[:-1] if not isinstance(parent.get(id(x)), (ast.If, ast.While, ast.IfExp, ast.Assert, ast.BoolOp, ast.UnaryOp)) else x.values:
                    truthy(v)
                continue
            if isinstance(x, ast.UnaryOp) and isinstance(x.op, ast.Not):
                truthy(x.operand)
                continue
            if isinstance(x, ast.comprehension):
                for c in x.ifs:
                    truthy(c)
                if lv(x.iter) >= T.VAL:
                    var = dotted(x.iter)
                    at = node_of(x.iter)
                    if var is not None and self.exact_at(fi, g, at, var):
                        safe(x.iter, "iteration over an exactly-typed builtin container")
                    else:
                        hook(x.iter, "iteration (__iter__ of a possibly user-defined class)")
                continue
            if isinstance(x, (ast.For, ast.AsyncFor)):
                if lv(x.iter) >= T.VAL:
                    var = dotted(x.iter)
                    at = node_of(x.iter)
                    if var is not None and self.exact_at(fi, g, at, var):
                        safe(x.iter, "iteration over an exactly-typed builtin container")
                    else:
                        hook(x.iter, "iteration (__iter__ of a possibly user-defined class)")
                continue
            if isinstance(x, ast.Subscript):
                if lv(x.slice) >= T.VAL:
                    at = node_of(x)
                    if is_class_level(x.slice, at):
                        safe(x, "subscription with a class object (class-level only)")
                    elif dotted(x.slice) is not None and self._all_str_guard(fi, g, at, x, dotted(x.slice)):
                        safe(x, "key whose type is exactly str (builtin hashing)")
                    else:
                        hook(x, "use as a key hashes the value")
                elif lv(x.value) >= T.VAL and isinstance(x.ctx, ast.Load):
                    var = dotted(x.value)
                    at = node_of(x)
                    if not (var is not None and self.exact_at(fi, g, at, var)):
                        hook(x, "indexing calls the object's __getitem__")
                continue
            if isinstance(x, (ast.Dict, ast.DictComp, ast.Set, ast.SetComp)):
                keys = x.keys if isinstance(x, ast.Dict) else ([x.key] if isinstance(x, ast.DictComp) else (x.elts if isinstance(x, ast.Set) else [x.elt]))
                for k in keys:
                    if k is not None and lv(k) >= T.VAL:
                        var = dotted(k)
                        at = node_of(x)
                        if var is not None and self._all_str_guard(fi, g, at, x, var):
                            safe(k, "key whose type is exactly str (builtin hashing)")
                        else:
                            hook(k, "use as a dict key / set member hashes the value")
                continue
            if isinstance(x, ast.JoinedStr):
                for v in x.values:
                    if isinstance(v, ast.FormattedValue) and lv(v.value) >= T.VAL:
                        hook(v.value, "string formatting (__format__/__str__)")
                continue
            if isinstance(x, ast.BinOp):
                if lv(x.left) >= T.VAL or lv(x.right) >= T.VAL:
                    hook(x, "arithmetic/formatting operator")
                continue

    def _key_source(self, fi: FunctionInfo, x: ast.AST, var: str) -> Optional[str]:
        """the container whose keys `var` ranges over at x (a comprehension generator or an enclosing for loop over
        c / c.keys() / c.items())"""
        def from_iter(target: ast.AST, it: ast.AST) -> Optional[str]:
            names = [t.id for t in ast.walk(target) if isinstance(t, ast.Name)]
            first = target.elts[0] if isinstance(target, (ast.Tuple, ast.List)) and target.elts else target
            if isinstance(it, ast.Call) and isinstance(it.func, ast.Attribute) and it.func.attr in ("items", "keys") and not it.args:
                if it.func.attr == "items" and not (isinstance(first, ast.Name) and first.id == var and isinstance(target, (ast.Tuple, ast.List))):
                    return None
                if it.func.attr == "keys" and not (isinstance(target, ast.Name) and target.id == var):
                    return None
                return dotted(it.func.value)
            if isinstance(target, ast.Name) and target.id == var and var in names:
                return dotted(it)
            return None
        if isinstance(x, (ast.DictComp, ast.SetComp)) and x.generators:
            r = from_iter(x.generators[0].target, x.generators[0].iter)
            if r is not None:
                return r
        for loop in [y for y in ast.walk(fi.node) if isinstance(y, ast.For)]:
            if any(z is x for s_ in loop.body for z in ast.walk(s_)):
                r = from_iter(loop.target, loop.iter)
                if r is not None:
                    return r
        return None

    def _all_str_guard(self, fi: FunctionInfo, g: CFG, at: int, comp: ast.AST, var: str) -> bool:
        """The keys come from a container whose every key passed issubclass(type(k), str) (the test may be held in a
        local name)."""
        cont = self._key_source(fi, comp, var)
        if cont is None:
            return False
        def known_true(a: ast.AST, pol: bool, at_node: int, depth: int = 0) -> List[ast.AST]:
            """the atoms that hold when the test `a` came out `pol`: through `not`, conjunctions (true) / disjunctions (false)
            and a local name that holds the test's value"""
            if depth > 4:
                return []
            if isinstance(a, ast.UnaryOp) and isinstance(a.op, ast.Not):
                return known_true(a.operand, not pol, at_node, depth + 1)
            if isinstance(a, ast.BoolOp) and isinstance(a.op, ast.And) and pol:
                return [x for v in a.values for x in known_true(v, True, at_node, depth + 1)]
            if isinstance(a, ast.BoolOp) and isinstance(a.op, ast.Or) and not pol:
                return [x for v in a.values for x in known_true(v, False, at_node, depth + 1)]
            if isinstance(a, ast.Name):
                orig = [r for r, k_, _ in g.origins(a, at_node)]
                if len(orig) == 1 and not isinstance(orig[0], ast.Name):
                    return known_true(orig[0], pol, at_node, depth + 1)
                return []
            return [a] if pol else []

        for cn, pol in g.guards(at):
            cands = known_true(cn.ast, pol, cn.id)
            if not cands:
                continue
            more: List[Tuple[ast.AST, str]] = []
            for a in cands:
                # the test may live in a helper predicate: f(cont, ...) whose every return is a conjunction containing it
                if isinstance(a, ast.Call):
                    callee = self.repo.resolve_callee(fi, a)
                    if callee is not None and callee.fq.startswith("monkeytype."):
                        from mtsa.index import bind_args
                        b = bind_args(callee, a, skip_self=callee.cls is not None)
                        pname = next((k for k, v in b.items() if dotted(v) == cont and not k.startswith("*")), None)
                        rets = [x.value for x in walk_no_nested(callee.node) if isinstance(x, ast.Return)]
                        if pname is not None and rets and all(r is not None for r in rets):
                            conj = []
                            okc = True
                            for r in rets:
                                parts = r.values if isinstance(r, ast.BoolOp) and isinstance(r.op, ast.And) else [r]
                                hit = [p_ for p_ in parts if is_call_to(p_, "all")]
                                if not hit:
                                    okc = False
                                conj.extend(hit)
                            if okc:
                                more.extend((h, pname) for h in conj)
            for a, cont_here in [(a, cont) for a in cands] + more:
                if is_call_to(a, "all") and len(a.args) == 1 and is_call_to(a.args[0], "map") and len(a.args[0].args) == 2 and not a.args[0].keywords:
                    # all(map(pred, cont.keys())) is all(pred(k) for k in cont.keys())
                    pred_f, src_m = a.args[0].args
                    if isinstance(src_m, ast.Call) and isinstance(src_m.func, ast.Attribute) and src_m.func.attr == "keys" and dotted(src_m.func.value) == cont_here or dotted(src_m) == cont_here:
                        fake_e = ast.Call(func=pred_f, args=[ast.Name(id="__mapped__", ctx=ast.Load())], keywords=[])
                        ast.copy_location(fake_e, a)
                        ast.fix_missing_locations(fake_e)
                        if self._scalar_pred(fi, fake_e, "__mapped__"):
                            return True
                    continue
                if is_call_to(a, "all") and a.args and isinstance(a.args[0], (ast.GeneratorExp, ast.ListComp)):
                    ge = a.args[0]
                    gen = ge.generators[0]
                    if gen.ifs or len(ge.generators) != 1:
                        continue
                    src = gen.iter
                    if isinstance(src, ast.Call) and isinstance(src.func, ast.Attribute) and src.func.attr == "keys" and dotted(src.func.value) == cont_here or dotted(src) == cont_here:
                        e = ge.elt
                        if self._scalar_pred(fi, e, dotted(gen.target) or ""):
                            return True
        return False

    def _scalar_pred(self, fi: FunctionInfo, e: ast.AST, var: str, depth: int = 0) -> bool:
        """e is true only if `var` is an instance of exactly a builtin scalar class: `type(var) is str`, a conjunction
        containing it, or a helper predicate f(var) of the package whose every return is such"""
        if not var:
            return False
        # issubclass(type(var), str) is NOT enough: an instance of a subclass of str may override __hash__ / __eq__, which a
        # dict built from the keys would run
        if _is_exact_scalar_test(e, var):
            return True
        if isinstance(e, ast.BoolOp) and isinstance(e.op, ast.And):
            return any(self._scalar_pred(fi, v, var, depth) for v in e.values)
        if isinstance(e, ast.Call) and depth < 3:
            callee = self.repo.resolve_callee(fi, e)
            if callee is not None and callee.fq.startswith("monkeytype."):
                from mtsa.index import bind_args
                b = bind_args(callee, e, skip_self=callee.cls is not None)
                pname = next((k for k, v in b.items() if dotted(v) == var and not k.startswith("*")), None)
                rets = [x.value for x in walk_no_nested(callee.node) if isinstance(x, ast.Return)]
                if pname is not None and rets and all(r is not None and self._scalar_pred(callee, r, pname, depth + 1) for r in rets):
                    # the parameter must not be rebound inside the helper
                    return not any(isinstance(x, ast.Name) and x.id == pname and isinstance(x.ctx, ast.Store) for x in ast.walk(callee.node))
        return False


def rule_effects(ctx: Ctx, repo: Repo) -> None:
    selector_fq = code_selector(repo, ctx).fq
    call = repo.method(repo.cls(M, "CallTracer"), "__call__")
    ps = call.positional_params()
    seeds = {call.fq: {ps[3]: T.VAL}}
    in_scope = lambda fi: fi.module.name in ("monkeytype.tracing", "monkeytype.typing", "monkeytype.compat", "monkeytype.util")  # noqa: E731
    ta = T.Taint(repo, seeds, in_scope)
    cl = Classifier(ctx, repo, ta)
    analysed = 0
    # the function look-up (get_func and everything its source refers to in monkeytype.tracing) is decided by interpreting it
    # on frames in which objects with attribute hooks sit in every place it looks at: each operation of the look-up that
    # dispatches into such an object's class is reported, under the function and construct that performs it.  Where the
    # look-up cannot be interpreted, its functions are classified like all the others.
    from . import lookup_model as LM
    try:
        hostile = LM.hostile_results(repo)
        lk_fns, lk_consts = LM.lookup_closure(repo)
    except AnalysisError as e:
        ctx.note(f"R-C03.1: the look-up is not interpretable here ({str(e)[:120]}); its functions are classified by the effect analysis instead")
        hostile, lk_fns, lk_consts = None, set(), set()

    def in_lookup(fq: str) -> bool:
        return fq in lk_fns or any(isinstance(c, str) and f" of {c}>" in fq for c in lk_consts) or any(f"<lambda in {q.split('.', 2)[2]}>" in fq for q in lk_fns if q.count(".") >= 2)
    for fq, fi in sorted(ta.fns.items()):
        if not any(v >= T.CONT for v in ta.locals.get(fq, {}).values()) and not any(
            isinstance(x, ast.Attribute) and x.attr in T.FRAME_CONTAINERS for x in ast.walk(fi.node)
        ):
            continue
        ctx.functions.add(fq)
        analysed += 1
        if hostile is not None and in_lookup(fq):
            continue
        cl.run(fi)
    if hostile is not None:
        seen_t: Set[Tuple[str, str]] = set()
        n_clean = 0
        for what, kind, res, touches in hostile:
            if kind != "return":
                ctx.violate("R-C03.1", repo.fn(M, "get_func").fq, f"{what}: {res}", f"the look-up raises {res} in a world with hook-carrying objects ({what})")
                continue
            if not touches:
                n_clean += 1
                cl.ops += 1
                ctx.ok("R-C03.1", repo.fn(M, "get_func").fq, f"no hook of a program object runs: {what}")
            for ident, how, where, node, tfi in touches:
                construct = _canon_locals(tfi, node) if (tfi is not None and node is not None) else how
                if (where, construct) in seen_t:
                    continue
                seen_t.add((where, construct))
                cl.ops += 1
                ctx.violate("R-C03.1", where, construct, f"{how} on a value of the traced program can run user-defined code (reached with: {ident}; {what})", node=node)
        # R-C03.8: the look-up comes back - a `__wrapped__` chain that never reaches None (a function that is its own
        # __wrapped__, a proxy that answers every attribute with a proxy) must not keep the profile callback, and with it the traced
        # program, in a loop; the function is then found where it is (inspect.unwrap gives such chains up with ValueError)
        for what, want, kind, res in LM.endless_results(repo):
            ok = kind == "return" and res == want
            got = "does not terminate" if kind == "hang" else (f"raises {res}" if kind == "raise" else ("finds the function" if res == want else f"returns {str(res)[:60]}"))
            ctx.check(ok, "R-C03.8", code_selector(repo, ctx).fq, "the function look-up terminates on `__wrapped__` chains that never end, and still finds the function",
                      construct=f"{what}: the look-up {got}")
        ctx.count("R-C03.1:look-up worlds with hook-carrying objects", len(hostile))
        ctx.floor("R-C03.1", "look-up worlds with hook-carrying objects", len(hostile), 5)
    ctx.count("R-C03.1:functions with program values", analysed)
    ctx.count("R-C03.1:classified operations", cl.ops)
    ctx.floor("R-C03.1", "functions of the tracer's call graph that handle program values", analysed, 7)
    ctx.floor("R-C03.1", "classified operations on program values", cl.ops, 8)
    # the type collection entry points must be among them
    needs = ["monkeytype.typing.get_type", "monkeytype.typing.get_dict_type"]
    if hostile is None:
        needs += [selector_fq, "monkeytype.tracing.get_func_in_mro", "monkeytype.tracing.get_func"]  # otherwise decided on the look-up worlds
    for need in needs:
        if need not in ta.fns:
            raise AnalysisError(f"R-C03.1: {need} is no longer reached by the taint analysis")
    ctx.note("tainted locals per function: " + "; ".join(f"{fq.split('.', 1)[1]}: {sorted(k for k, v in ta.locals[fq].items() if v >= T.CONT)}" for fq in sorted(ta.locals) if any(v >= T.CONT for v in ta.locals[fq].values())))


def rule_containment(ctx: Ctx, repo: Repo) -> None:
    fi = repo.method(repo.cls(M, "CallTracer"), "__call__")
    ctx.functions.add(fi.fq)
    g = cfg_of(fi)
    tries = [x for x in walk_no_nested(fi.node) if isinstance(x, ast.Try)]
    guarded: Set[int] = set()
    for t in tries:
        if any(_is_catch_all(h) for h in t.handlers):
            for s in t.body:
                for y in ast.walk(s):
                    guarded.add(id(y))
            for h in t.handlers:
                if not _is_catch_all(h):
                    continue
                raises = [y for s in h.body for y in ast.walk(s) if isinstance(y, ast.Raise)]
                ctx.check(not raises, "R-C03.2", fi.fq, "the catch-all handler of the profile function does not re-raise",
                          construct=norm(h), node=h)
                hn = [n for n in g.stmts() if n.kind == "except" and n.ast is h]
                if hn:
                    r = g.reach(hn[0].id)
                    ctx.check(g.rexit not in r and g.exit in r, "R-C03.2", fi.fq,
                              "after a contained failure the profile function still returns normally", construct=norm(h)[:80])
    n_calls = 0
    for c in calls_in(fi.node):
        d = dotted(c.func) or norm(c.func)
        inside_handler = any(c in list(ast.walk(h)) for t in tries for h in t.handlers)
        if inside_handler or d == "self.should_trace":
            continue
        n_calls += 1
        if id(c) in guarded:
            ctx.ok("R-C03.2", fi.fq, f"`{norm(c)[:60]}` is under the catch-all handler")
            continue
        # a call outside the textual handler of __call__ may still be contained further down (a helper that holds the try, a
        # decorator that wraps the dispatch): decided below by injecting a fault into every call the profile function makes
    ctx.count("R-C03.2:calls made by __call__ besides the code filter", n_calls)
    # the same by interpretation (whatever shape the dispatch has: if/elif, a table of handlers, a helper): the handler for
    # the event is reached, and when it fails with an ordinary exception the profile function still returns normally
    from mtsa.absint import K as _K, R as _R, S as _S, U as _U, raise_exc as _raise
    from .tracer_model import TracerScenario
    ps = fi.positional_params()
    n_i = 0
    for event, want in (("call", "handle_call"), ("return", "handle_return")):
        for failing in (False, True):
            sc = TracerScenario(repo, "__call__", {"should_trace": _K(None)})
            reached: List[str] = []

            def hook_i(call, fname, fval, args, kwargs, st, _r=reached, _sc=sc, _f=failing):
                if isinstance(fval, _S) and fval.name == "self" and isinstance(call.func, ast.Attribute) and call.func.attr in ("handle_call", "handle_return"):
                    _r.append(call.func.attr)
                    if _f:
                        _raise(st, "RuntimeError")
                        return _U("the handler failed")
                    return _K(None)
                if (fname or "").split(".")[-1] in ("exception", "error", "warning") and not (isinstance(fval, _S) and fval.name == "self"):
                    return _K(None)  # the failure is reported through logging
                return TracerScenario.call_hook(_sc, call, fname, fval, args, kwargs, st)

            sc.ri.call_hook = hook_i
            outs = sc.run({ps[1]: _R("frame", f_code=_R("code", co_name=_K("f"), co_filename=_K("/src/app.py"))), ps[2]: _K(event), ps[3]: _S("arg")})
            n_i += 1
            if len(outs) != 1:
                raise AnalysisError(f"__call__: {len(outs)} outcomes for one event")
            o = outs[0]
            ended = "returns" if o.term is None or o.term[0] == "return" else f"raises {o.term[1]}"
            ctx.check(reached == [want], "R-C03.2", fi.fq, f"a '{event}' event reaches {want} exactly once", construct=f"event={event}: reached {reached}")
            ctx.check(ended == "returns", "R-C03.2", fi.fq,
                      "a failure inside the handler is contained: the profile function returns normally (an exception leaving it would be raised into the traced program)",
                      construct=f"event={event}, handler {'raises RuntimeError' if failing else 'returns'}: the profile function {ended}")
    ctx.floor("R-C03.2", "dispatch scenarios of the profile function", n_i, 4)
    # fault injection: every call the profile function makes on the way (its own helper methods, functions of the package,
    # the handlers) - except the configured code filter, which by design runs first and uncontained - is made to fail in
    # turn; the profile function must still return normally
    n_f = 0
    for event in ("call", "return"):
        def run_with_fault(k: Optional[int], exc: str = "RuntimeError") -> Tuple[List[str], str]:
            sc = TracerScenario(repo, "__call__", {"should_trace": _K(None)})
            seen_calls: List[str] = []

            def hook_f(call, fname, fval, args, kwargs, st, _sc=sc, _seen=seen_calls, _k=k):
                is_self_m = isinstance(fval, _S) and fval.name == "self" and isinstance(call.func, ast.Attribute)
                if is_self_m and call.func.attr == "should_trace":
                    return TracerScenario.call_hook(_sc, call, fname, fval, args, kwargs, st)
                callee = None
                try:
                    callee = _sc.ri.resolve(call, fval)
                except Exception:
                    callee = None
                is_handler = is_self_m and call.func.attr in ("handle_call", "handle_return")
                inlined = callee is not None and (callee.fq in _sc.ri.inline or callee.qualname in _sc.ri.inline) and not is_handler
                # a helper the interpreter walks into is not failed at its call boundary (its own calls are, in turn)
                if (is_self_m or (callee is not None and callee.fq.startswith("monkeytype."))) and not inlined:
                    _seen.append(norm(call)[:60])
                    if _k is not None and len(_seen) - 1 == _k:
                        _raise(st, exc)
                        return _U("injected fault")
                    if is_self_m and call.func.attr in ("handle_call", "handle_return"):
                        return _K(None)
                if (fname or "").split(".")[-1] in ("exception", "error", "warning") and not is_self_m:
                    return _K(None)
                return TracerScenario.call_hook(_sc, call, fname, fval, args, kwargs, st)

            sc.ri.call_hook = hook_f
            outs = sc.run({ps[1]: _R("frame", f_code=_R("code", co_name=_K("f"), co_filename=_K("/src/app.py"))), ps[2]: _K(event), ps[3]: _S("arg")})
            if len(outs) != 1:
                raise AnalysisError(f"__call__: {len(outs)} outcomes for one event")
            o = outs[0]
            return seen_calls, ("returns" if o.term is None or o.term[0] == "return" else f"raises {o.term[1]}")

        calls0, ended0 = run_with_fault(None)
        for k in range(len(calls0)):
            calls_k, ended_k = run_with_fault(k)
            n_f += 1
            ctx.check(ended_k == "returns", "R-C03.2", fi.fq,
                      "every call the profile function makes (other than the code filter) is under a catch-all handler",
                      construct=f"a failure of `{calls0[k]}` (event '{event}') leaves the profile function: it {ended_k}")
            # ... but what is not an error of the tracer is not the tracer's to keep: a KeyboardInterrupt (Ctrl-C, delivered in
            # whatever frame runs - often a tracer frame) or SystemExit raised there must reach the program as it does untraced
            for passing in ("KeyboardInterrupt", "SystemExit"):
                _, ended_p = run_with_fault(k, passing)
                n_f += 1
                ctx.check(ended_p == f"raises {passing}", "R-C03.2", fi.fq,
                          "an interrupt or exit request that arrives while the tracer runs propagates to the program (the same exceptions with and without tracing)",
                          construct=f"{passing} raised inside `{calls0[k]}` (event '{event}'): the profile function {ended_p} - the program carries on as if nothing had happened")
    ctx.floor("R-C03.2", "calls of the profile function that were made to fail", n_f, 2)
    # ... and the code filter: the configured filter runs for every event of every frame of the program; the shipped one touches
    # the file system (pathlib's resolve() needs the current directory, follows links), a custom one is user code. Its failure
    # must not be raised into the traced program either.
    for event in ("call", "return"):
        sc_f = TracerScenario(repo, "__call__", {"should_trace": _S("p:filter")})
        asked: List[str] = []

        def hook_flt(call, fname, fval, args, kwargs, st, _sc=sc_f, _a=asked):
            if isinstance(fval, _S) and fval.name == "self" and isinstance(call.func, ast.Attribute) and call.func.attr == "should_trace":
                _a.append("filter")
                _raise(st, "FileNotFoundError")
                return _U("the filter failed")
            if isinstance(fval, _S) and fval.name == "self" and isinstance(call.func, ast.Attribute) and call.func.attr in ("handle_call", "handle_return"):
                _a.append(call.func.attr)
                return _K(None)
            if (fname or "").split(".")[-1] in ("exception", "error", "warning") and not (isinstance(fval, _S) and fval.name == "self"):
                return _K(None)
            return TracerScenario.call_hook(_sc, call, fname, fval, args, kwargs, st)

        sc_f.ri.call_hook = hook_flt
        outs_f = sc_f.run({ps[1]: _R("frame", f_code=_R("code", co_name=_K("f"), co_filename=_K("relative/app.py"))), ps[2]: _K(event), ps[3]: _S("arg")})
        if len(outs_f) != 1:
            raise AnalysisError(f"__call__: {len(outs_f)} outcomes with a failing filter")
        o_f = outs_f[0]
        ended_f = "returns" if o_f.term is None or o_f.term[0] == "return" else f"raises {o_f.term[1]}"
        ctx.check(asked == ["filter"] and ended_f == "returns", "R-C03.2", fi.fq,
                  "a failure of the code filter is contained like any other failure of the tracer: the event is dropped, the profile function returns normally",
                  construct=f"event '{event}', the filter raises FileNotFoundError (no current directory to resolve a relative file name against): the profile function {ended_f}; reached {asked}")
    # every return of __call__ returns the tracer itself (a profile function's result is ignored, but
    # returning normally is what keeps it installed); no raise statement anywhere
    for x in walk_no_nested(fi.node):
        if isinstance(x, ast.Raise):
            ctx.violate("R-C03.2", fi.fq, norm(x), "the profile function raises into the traced program", node=x)


def rule_restore_flush(ctx: Ctx, repo: Repo) -> None:
    """R-C03.3 / R-C03.7 by interpretation of the context-manager protocol.  A driver

        cm = trace_calls(logger, 0, None, None)      # the context manager object is created ...
        [sys.setprofile(P1)]                          # ... the program may install another profiler before it enters
        with cm:
            BODY()                                    # returns or raises

    is interpreted with `sys.getprofile/setprofile` answered from a one-cell world, for body {returns, raises} x
    logger.flush {returns, raises} x {entered at once, entered later}.  Required: the tracer is the installed profiler
    while the body runs; afterwards the profiler that was installed when the block was ENTERED is back; flush is called
    exactly once, after the restore; the block ends the way its body ended, whatever flush did."""
    from mtsa.absint import K, R, Ref, S, U, raise_exc
    from .common import RepoInterp
    tc = block_entry(repo)
    ctx.functions.add(tc.fq)
    mod = repo.module(M)
    ci = repo.cls(M, "CallTracer")
    init = repo.method(ci, "__init__")
    n = 0
    for prepared in (False, True, "decorated"):
        for body_raises in (False, True):
            for flush_raises in (False, True):
                src = "def __driver__(logger, P1, BODY):\n    cm = trace_calls(logger, 0, None, None)\n" + \
                      ("    sys.setprofile(P1)\n" if prepared is True else "") + "    with cm:\n        BODY()\n"
                if prepared == "decorated":
                    # `@trace_calls(...) def f(): ... f() ...` - the decorator form (contextlib.ContextDecorator.__call__: `with
                    # self._recreate_cm(): return func(*args)`) entered again from inside the block, by recursion: a generator-
                    # based manager is created anew for each entry, a class-based one is the SAME object unless it says otherwise
                    if flush_raises:
                        continue
                    src = "def __driver__(logger, P1, BODY):\n    cm = trace_calls(logger, 0, None, None)\n    with RECREATE(cm):\n        with RECREATE(cm):\n            BODY()\n"
                node = ast.parse(src).body[0]
                fi = FunctionInfo(mod, "<driver>", node)
                world = {"profile": R("profiler", name=K("P0"))}
                log: List[Tuple[Any, ...]] = []

                def hook(call, fname, fval, args, kwargs, st, _w=world, _l=log, _br=body_raises, _fr=flush_raises):
                    d = fname or ""
                    if d == "sys.getprofile":
                        return _w["profile"]
                    if d == "sys.setprofile" and len(args) == 1:
                        _w["profile"] = st.freeze(args[0])
                        _l.append(("setprofile", _w["profile"]))
                        return K(None)
                    if d in ("sys.settrace", "sys.gettrace", "threading.setprofile", "threading.settrace"):
                        _l.append((d,))
                        return R("tracefunc") if "get" in d else K(None)
                    if d == "RECREATE" and len(args) == 1:
                        a0 = args[0]
                        if isinstance(a0, Ref) and a0.kind == "obj":
                            ci_cm = ri._class_of_ref(a0, st)
                            rec = repo.method(ci_cm, "_recreate_cm") if ci_cm is not None else None
                            if rec is not None:
                                return ri.inline_call(rec, call, a0, [], {}, st)
                        return a0  # contextlib: _GeneratorContextManager builds a fresh manager from the same call; ContextDecorator returns self
                    if d == "BODY":
                        _l.append(("body", _w["profile"]))
                        if _br:
                            raise_exc(st, "ValueError")
                            return U("the traced block raised")
                        return K(None)
                    if isinstance(fval, S) and fval.name == "p:logger" and isinstance(call.func, ast.Attribute):
                        _l.append(("logger." + call.func.attr, _w["profile"]))
                        if call.func.attr == "flush" and _fr:
                            raise_exc(st, "OSError")
                            return U("flush failed")
                        return K(None)
                    try:
                        callee = ri.resolve(call, fval)
                    except Exception:
                        callee = None
                    if callee is not None and callee is init:
                        return R("tracer")
                    if d.startswith("logging.") or (isinstance(call.func, ast.Attribute) and call.func.attr in ("exception", "error", "warning", "info", "debug") and not isinstance(fval, S)):
                        return R("opaque", what=K("logging"))
                    if isinstance(fval, R) and fval.kind == "opaque":
                        return K(None)
                    return None

                inline = {f.fq for f in mod.functions.values() if f.cls is None}
                ri = RepoInterp(repo, fi, inline=inline, call_hook=hook, may_fork=(), heap=True)
                if tc.cls is not None:
                    # the tracing block is a class: its instance is a heap object, __enter__/__exit__ and what they call are interpreted
                    ri.inline |= {f.fq for f in mod.functions.values() if f.cls is tc.cls}
                    ri.construct_instances = True
                    ri.dispatch_instances = True
                outs = ri.run({"logger": S("p:logger"), "P1": R("profiler", name=K("P1")), "BODY": S("func:BODY")})
                if len(outs) != 1:
                    raise AnalysisError(f"trace_calls: {len(outs)} outcomes for one scenario of the context-manager protocol")
                o = outs[0]
                n += 1
                lab = f"body {'raises' if body_raises else 'returns'}, flush {'raises' if flush_raises else 'returns'}, {'decorator form entered again from inside the block (recursion)' if prepared == 'decorated' else 'profiler P1 installed between creating and entering the context manager' if prepared else 'entered at once'}"
                at_entry = R("profiler", name=K("P1" if prepared is True else "P0"))
                if prepared == "decorated":
                    bodies = [e for e in log if e[0] == "body"]
                    ctx.check(len(bodies) == 1 and bodies[0][1] == R("tracer"), "R-C03.3", tc.fq, "while the block runs the installed profiler is the tracer (installed with sys.setprofile)",
                              construct=f"{lab}: {[e[0] for e in log]}")
                    ctx.check(world["profile"] == at_entry, "R-C03.3", tc.fq,
                              "when the context exits the profiler that was installed when the block was entered is back in place",
                              construct=f"{'exception' if body_raises else 'normal'} exit, {lab}: profiler afterwards = {world['profile']}, at entry = {at_entry}")
                    continue
                bodies = [e for e in log if e[0] == "body"]
                if not ctx.check(len(bodies) == 1, "R-C03.3", tc.fq, "the traced block runs exactly once inside the context", construct=f"{lab}: body ran {len(bodies)} time(s)"):
                    continue
                ctx.check(bodies[0][1] == R("tracer"), "R-C03.3", tc.fq, "while the block runs the installed profiler is the tracer (installed with sys.setprofile)",
                          construct=f"{lab}: profiler during the block = {bodies[0][1]}; calls {[e[0] for e in log]}")
                bad_api = [e[0] for e in log if e[0] in ("sys.settrace", "sys.gettrace", "threading.setprofile", "threading.settrace")]
                ctx.check(not bad_api, "R-C03.3", tc.fq, "the previously installed profiler is read with sys.getprofile() (that is what gets restored)", construct=f"{lab}: {bad_api}")
                ctx.check(world["profile"] == at_entry, "R-C03.3", tc.fq,
                          "when the context exits the profiler that was installed when the block was entered is back in place",
                          construct=f"{'exception' if body_raises else 'normal'} exit, {'entered later' if prepared else 'entered at once'}: profiler afterwards = {world['profile']}, at entry = {at_entry}")
                after = log[log.index(bodies[0]) + 1:]
                flushes = [e for e in after if e[0] == "logger.flush"]
                early = [e for e in log[:log.index(bodies[0])] if e[0] == "logger.flush"]
                ctx.check(len(flushes) == 1 and not early, "R-C03.3", tc.fq,
                          f"on the {'exception' if body_raises else 'normal'} exit path the previous profiler is restored once, then the logger is flushed once",
                          construct=f"{lab}: after the block {[e[0] for e in after]}, before it {[e[0] for e in early]}")
                if flushes:
                    ctx.check(flushes[0][1] == at_entry and sum(1 for e in after if e[0] == "setprofile") == 1, "R-C03.3", tc.fq,
                              f"on the {'exception' if body_raises else 'normal'} exit path the previous profiler is restored once, then the logger is flushed once",
                              construct=f"{lab}: profiler at flush time = {flushes[0][1]}; after the block {[e[0] for e in after]}")
                # how the block ends is how its body ended
                ended = "returns" if o.term is None or o.term[0] == "return" else f"raises {o.term[1]}"
                want = "raises ValueError" if body_raises else "returns"
                if flush_raises:
                    ctx.check(ended == want, "R-C03.7", tc.fq,
                              "a failure of the logger's flush is contained: the traced block still ends the way its body ended (its own exception is not replaced, a normal exit stays normal)",
                              construct=f"logger.flush() raising on the {'exception' if body_raises else 'normal'} exit path reaches the program: the block {ended}, its body {want.replace('raises', 'raised').replace('returns', 'returned')}")
                else:
                    ctx.check(ended == want, "R-C03.3", tc.fq, "the traced block ends the way its body ended", construct=f"{lab}: the block {ended}")
    ctx.floor("R-C03.3", "scenarios of the context-manager protocol", n, 8)
    # trace() returns trace_calls(...) unchanged; run_handler uses it in a with statement
    from . import glue_model as GM
    for gl in GM.trace_glue(repo):
        ctx.functions.add(gl.fi.fq)
        ctx.check(len(gl.calls) == 1 and gl.result == R_("trace_calls_context", n=K_(1)), "R-C03.3", gl.fi.fq,
                  "monkeytype.trace returns the trace_calls context manager unchanged",
                  construct=f"{'given' if gl.given else 'default'} configuration: {len(gl.calls)} trace_calls call(s), returns {gl.result}")
    rule_run_handler(ctx, repo)


def rule_run_handler(ctx: Ctx, repo: Repo) -> None:
    """`monkeytype run`: interpreted for -m and path scripts; the script runs strictly inside the tracing context"""
    from mtsa.absint import K, R, S, U
    from .cli_model import CLI, CliScenario
    rh = repo.fn(CLI, "run_handler")
    ctx.functions.add(rh.fq)
    ps = rh.positional_params()
    n = 0
    for as_module in (False, True):
        def hook(call, fname, fval, args, kwargs, st):
            d = fname or ""
            if d == "trace" or d.endswith(".trace"):
                return R("tracectx", config=st.freeze(args[0]) if args else K(None))
            if d.startswith("runpy."):
                st.effects.append(("runpy", d))
                return K(None)
            if d in ("sys.argv.copy",):
                return R("opaque", what=K("argv"))
            return None
        sc = CliScenario(repo, CLI, "run_handler", hook)
        args = R("args", config=S("config"), script_path=K("script.py"), script_args=R("list", items=()), m=K(as_module))
        o = sc.run({ps[0]: args, ps[1]: K("stdout"), ps[2]: K("stderr")})
        depth = 0
        inside = outside = 0
        entered = 0
        for e in o.effects:
            if e[0] == "with-enter" and isinstance(e[2], R) and e[2].kind == "tracectx":
                depth += 1
                entered += 1
                cfg_ok = e[2].fields["config"] == S("config")
            elif e[0] == "with-exit" and depth > 0 and "trace" in str(e[1]):
                depth -= 1
            elif e[0] == "runpy":
                if depth > 0:
                    inside += 1
                else:
                    outside += 1
        n += 1
        lab = f"run {'-m module' if as_module else 'path'}"
        ctx.check(entered == 1 and cfg_ok, "R-C03.3", rh.fq, "`monkeytype run` executes the script inside `with trace(config)`",
                  construct=f"{lab}: {entered} tracing context(s) entered")
        ctx.check(inside == 1 and outside == 0, "R-C03.3", rh.fq, "every script execution happens inside the tracing context",
                  construct=f"{lab}: {inside} inside, {outside} outside")
    ctx.floor("R-C03.3", "run_handler scenarios", n, 2)


HARMLESS_CALLS = {"sys.setprofile", "sys.getprofile", "list", "tuple", "dict", "set", "len", "isinstance", "iter", "sorted"}
HARMLESS_METHODS = {"items", "values", "keys", "clear", "append", "pop", "popitem", "get", "copy", "extend", "discard", "add", "remove"}


LOG_METHODS = {"exception", "error", "warning", "info", "debug", "critical", "log"}


def _is_logging_call(fi: FunctionInfo, c: ast.Call) -> bool:
    """`logging.getLogger(...)`, or a report through a standard-library logger: `logging.getLogger(...).exception(..)` or
    `<module-level name bound to logging.getLogger(...)>.exception(..)` where the name is not shadowed by a parameter or
    local.  Catalogue: the logging package contains failures of its handlers (Handler.handleError), it does not raise."""
    d = dotted(c.func) or ""
    if d == "logging.getLogger" and fi.module.imports.get("logging", "logging") == "logging":
        return True
    if isinstance(c.func, ast.Attribute) and c.func.attr in LOG_METHODS:
        recv = c.func.value
        if isinstance(recv, ast.Call) and (dotted(recv.func) or "") == "logging.getLogger":
            return True
        if isinstance(recv, ast.Name):
            const = fi.module.constants.get(recv.id)
            shadowed = recv.id in getattr(fi, "params", []) or any(
                isinstance(x, ast.Name) and x.id == recv.id and isinstance(x.ctx, ast.Store) for x in ast.walk(fi.node))
            if const is not None and isinstance(const, ast.Call) and (dotted(const.func) or "") == "logging.getLogger" and not shadowed:
                return True
    return False


_SWALLOW_CACHE: Dict[str, bool] = {}


def _swallowing_context_manager(repo: Repo, fi: FunctionInfo, e: ast.AST) -> bool:
    """`with e:` where e is an instance of a class of the package whose __exit__ - interpreted - returns a true value for an
    Exception raised in the block (RuntimeError stands for all) without raising itself: the block's failures go no further"""
    from mtsa.absint import K, S, State
    from .common import RepoInterp
    call: Optional[ast.AST] = e
    if isinstance(e, ast.Name):
        binds = [x.value for x in walk_no_nested(fi.node) if isinstance(x, ast.Assign) and len(x.targets) == 1 and isinstance(x.targets[0], ast.Name) and x.targets[0].id == e.id]
        call = binds[0] if len(binds) == 1 else fi.module.constants.get(e.id) if not binds else None
    if not (isinstance(call, ast.Call) and isinstance(call.func, ast.Name)):
        return False
    ci = repo.resolve_class(fi.module, call.func.id)
    ex = repo.method(ci, "__exit__") if ci is not None else None
    if ci is None or ex is None or repo.method(ci, "__enter__") is None:
        return False
    if ci.fq not in _SWALLOW_CACHE:
        verdicts = []
        for exc_name in ("RuntimeError", "KeyError"):
            def hook(c, fname, fval, args, kwargs, st):
                if (fname or "").startswith("logging.") or (isinstance(c.func, ast.Attribute) and c.func.attr in LOG_METHODS):
                    return K(None)
                return None
            ri = RepoInterp(repo, ex, call_hook=hook, may_fork=(), heap=True)
            st0 = State()
            obj = st0.alloc("obj", {"__class__": K(ci.fq)})
            ps = ex.positional_params()
            env = {ps[0]: obj}
            for p_, v_ in zip(ps[1:], (S("excclass:" + exc_name), S("exc:" + exc_name), S("traceback"))):
                env[p_] = v_
            if ex.node.args.vararg is not None and len(ps) == 1:
                env[ex.node.args.vararg.arg] = K((S("excclass:" + exc_name), S("exc:" + exc_name), S("traceback")))
            try:
                outs = ri.run(env, carry=st0)
            except AnalysisError:
                verdicts.append(False)
                continue
            ok = len(outs) == 1 and outs[0].term is not None and outs[0].term[0] == "return" and ri.interp._value_truth(ex.node, outs[0].term[1], outs[0]) is True
            verdicts.append(ok)
        _SWALLOW_CACHE[ci.fq] = all(verdicts)
    return _SWALLOW_CACHE[ci.fq]


def _guarded_ids(fn_node: ast.AST, repo: Optional[Repo] = None, fi: Optional[FunctionInfo] = None) -> Set[int]:
    """ids of the nodes under a try whose catch-all handler does not re-raise - or under a `with` on a context manager of the
    package that swallows the block's exceptions (when repo and fi are given)"""
    out: Set[int] = set()
    for t in walk_no_nested(fn_node):
        if isinstance(t, ast.With) and repo is not None and fi is not None and any(_swallowing_context_manager(repo, fi, it.context_expr) for it in t.items):
            for s in t.body:
                for y in ast.walk(s):
                    out.add(id(y))
            continue
        if not isinstance(t, ast.Try):
            continue
        hs = [h for h in t.handlers if _is_catch_all(h)]
        if not hs or any(isinstance(y, ast.Raise) for h in hs for s in h.body for y in ast.walk(s)):
            continue
        for s in t.body:
            for y in ast.walk(s):
                out.add(id(y))
    return out


def _uncontained_calls(repo: Repo, fi: FunctionInfo, nodes: List[ast.AST], depth: int = 0, seen: Optional[Set[str]] = None) -> List[Tuple[FunctionInfo, ast.Call]]:
    """calls among `nodes` (statements/expressions of fi) that can raise into fi's caller"""
    seen = set() if seen is None else seen
    guarded = _guarded_ids(fi.node, repo, fi)
    bad: List[Tuple[FunctionInfo, ast.Call]] = []
    for root in nodes:
        for c in [x for x in ast.walk(root) if isinstance(x, ast.Call)]:
            if id(c) in guarded:
                continue
            d = dotted(c.func) or ""
            if d in HARMLESS_CALLS:
                continue
            if _is_logging_call(fi, c):
                continue
            callee = _resolve(repo, fi, c)
            if callee is not None and callee.fq.startswith("monkeytype.") and depth < 3:
                if callee.fq in seen:
                    continue
                seen.add(callee.fq)
                body = [s for s in callee.node.body]
                bad.extend(_uncontained_calls(repo, callee, body, depth + 1, seen))
                continue
            if isinstance(c.func, ast.Attribute) and c.func.attr in HARMLESS_METHODS and not (dotted(c.func.value) or "").endswith("logger"):
                continue
            bad.append((fi, c))
    return bad


def _rule_exit_contained_class(ctx: Ctx, repo: Repo, init: FunctionInfo) -> None:
    """the tracing block as a class: the calls of __exit__ (and of the methods of the class it calls) besides the restore and
    the flush, which R-C03.3 / R-C03.7 decide by interpretation, cannot raise past a catch-all handler"""
    ci = init.cls
    ex = repo.method(ci, "__exit__")
    todo, seen_m, n = [ex], {ex.fq}, 0
    while todo:
        fi = todo.pop()
        ctx.functions.add(fi.fq)
        for c in calls_in(fi.node):
            d = dotted(c.func) or ""
            if d == "sys.setprofile" or (isinstance(c.func, ast.Attribute) and c.func.attr == "flush"):
                continue
            if isinstance(c.func, ast.Attribute) and dotted(c.func.value) == "self" and repo.method(ci, c.func.attr) is not None:
                m = repo.method(ci, c.func.attr)
                if m.fq not in seen_m:
                    seen_m.add(m.fq)
                    todo.append(m)
                continue
            n += 1
            bad = _uncontained_calls(repo, fi, [c])
            if not bad:
                ctx.ok("R-C03.4", fi.fq, f"`{norm(c)[:70]}` on the exit path cannot raise past a catch-all handler")
            for bfi, bc in bad:
                ctx.violate("R-C03.4", bfi.fq, norm(bc), "this call runs on the tracing block's exit path outside any catch-all handler: its failure reaches the traced "
                            "program and skips what follows (flush)", node=bc)
    ctx.count("R-C03.4:extra calls on the exit path of trace_calls", n)
    ctx.ok("R-C03.4", ex.fq, f"{len(seen_m)} method(s) run on exit; {n} calls besides restore and flush, none can raise uncontained")


def rule_exit_contained(ctx: Ctx, repo: Repo) -> None:
    tc0 = block_entry(repo)
    if tc0.cls is not None:
        return _rule_exit_contained_class(ctx, repo, tc0)
    # the generator whose yield is the traced block: trace_calls itself, or a @contextmanager helper of tracing.py it returns
    cands = [tc0] + [c_ for c_ in (repo.resolve_callee(tc0, x) for x in calls_in(tc0.node)) if c_ is not None and c_.module.name == M and c_.cls is None]
    holders = [f for f in cands if any(isinstance(x, (ast.Yield, ast.YieldFrom)) for x in walk_no_nested(f.node))]
    if len(holders) != 1:
        raise AnalysisError(f"trace_calls: {len(holders)} generator(s) hold the traced block's yield")
    tc = holders[0]
    g = cfg_of(tc)
    flush_receivers = set()
    yields = [n for n in g.stmts() if any(isinstance(x, (ast.Yield, ast.YieldFrom)) for x in n.walk())]
    if len(yields) != 1:
        raise AnalysisError(f"{tc.qualname} does not have exactly one yield")
    y = yields[0]
    after = [g.node(nid) for nid in sorted(g.reach(y.id)) if nid not in (y.id, g.exit, g.rexit)]
    n = 0
    for node in after:
        if node.ast is None:
            continue
        exprs = [node.ast] if not isinstance(node.ast, (ast.Try, ast.With, ast.For, ast.While, ast.If)) else []
        if isinstance(node.ast, (ast.If, ast.While)):
            exprs = [node.ast.test]
        for e in exprs:
            for c in [x for x in ast.walk(e) if isinstance(x, ast.Call)]:
                d = dotted(c.func) or ""
                if d == "sys.setprofile" or (isinstance(c.func, ast.Attribute) and c.func.attr == "flush" and dotted(c.func.value) in tc.positional_params()):
                    continue  # decided by R-C03.3 / R-C03.7 (interpretation of the context-manager protocol)
                n += 1
                bad = _uncontained_calls(repo, tc, [c])
                if not bad:
                    ctx.ok("R-C03.4", tc.fq, f"`{norm(c)[:70]}` on the exit path cannot raise past a catch-all handler")
                for bfi, bc in bad:
                    ctx.violate("R-C03.4", bfi.fq, norm(bc),
                                "this call runs on trace_calls' exit path outside any catch-all handler: its failure reaches the traced "
                                "program and skips what follows (flush)", node=bc)
    ctx.count("R-C03.4:extra calls on the exit path of trace_calls", n)
    ctx.ok("R-C03.4", tc.fq, f"{len(after)} statements follow the yield; {n} calls besides restore and flush, none can raise uncontained")


def _param_uses_contained(repo: Repo, fi: FunctionInfo, var: str, scope: List[ast.AST], depth: int = 0) -> List[Tuple[FunctionInfo, ast.AST]]:
    """uses of `var` within `scope` (nodes of fi) that are not under a non-re-raising catch-all handler"""
    guarded = _guarded_ids(fi.node, repo, fi)
    bad: List[Tuple[FunctionInfo, ast.AST]] = []
    parents: Dict[int, ast.AST] = {}
    for root in scope:
        for x in ast.walk(root):
            for ch in ast.iter_child_nodes(x):
                parents[id(ch)] = x
    for root in scope:
        for x in ast.walk(root):
            if not (isinstance(x, ast.Name) and x.id == var and isinstance(x.ctx, ast.Load)):
                continue
            if id(x) in guarded:
                continue
            par = parents.get(id(x))
            if isinstance(par, ast.Call) and (x in par.args or any(k.value is x for k in par.keywords)) and depth < 3:
                callee = _resolve(repo, fi, par)
                if callee is not None and callee.fq.startswith("monkeytype."):
                    pname = bound_argument_name(callee, par, x)
                    if pname is not None:
                        bad.extend(_param_uses_contained(repo, callee, pname, list(callee.node.body), depth + 1))
                        continue
            if isinstance(par, (ast.Yield, ast.Return, ast.Assign, ast.AnnAssign)) or (isinstance(par, ast.Expr)):
                continue  # handing the object on does not operate on it
            bad.append((fi, par if par is not None else x))
    return bad


def bound_argument_name(callee: FunctionInfo, call: ast.Call, arg: ast.AST) -> Optional[str]:
    from mtsa.index import bind_args
    skip = callee.cls is not None and "staticmethod" not in callee.decorators()
    for name, a in bind_args(callee, call, skip).items():
        if a is arg and not name.startswith("*"):
            return name
    return None


def _resolve(repo: Repo, fi: FunctionInfo, call: ast.Call) -> Optional[FunctionInfo]:
    """resolve_callee, plus methods called on a local that was bound to a constructed package class"""
    callee = repo.resolve_callee(fi, call)
    if callee is not None:
        return callee
    f = call.func
    if isinstance(f, ast.Attribute) and isinstance(f.value, ast.Name):
        for x in walk_no_nested(fi.node):
            if isinstance(x, ast.Assign) and len(x.targets) == 1 and isinstance(x.targets[0], ast.Name) and x.targets[0].id == f.value.id and isinstance(x.value, ast.Call):
                init = repo.resolve_callee(fi, x.value)
                if init is not None and init.cls is not None and init.qualname.endswith("__init__"):
                    try:
                        return repo.method(init.cls, f.attr)
                    except Exception:
                        return None
    return None


def rule_serializer_contained(ctx: Ctx, repo: Repo) -> None:
    fi = repo.fn("monkeytype.encoding", "serialize_traces")
    ctx.functions.add(fi.fq)
    src = fi.positional_params()[0]
    loops = [x for x in walk_no_nested(fi.node) if isinstance(x, (ast.For, ast.comprehension)) and any(isinstance(y, ast.Name) and y.id == src for y in ast.walk(x.iter))]
    ctx.floor("R-C03.5", "loops over the batch in serialize_traces", len(loops), 1)
    n = 0
    for lp in loops:
        if not isinstance(lp, ast.For) or not isinstance(lp.target, ast.Name):
            raise AnalysisError("serialize_traces no longer iterates the batch with a plain for loop")
        var = lp.target.id
        uses = [x for s in lp.body for x in ast.walk(s) if isinstance(x, ast.Name) and x.id == var and isinstance(x.ctx, ast.Load)]
        n += len(uses)
        bad = _param_uses_contained(repo, fi, var, list(lp.body))
        for bfi, b in bad:
            ctx.violate("R-C03.5", bfi.fq, norm(b)[:100],
                        "a trace of the batch is operated on outside the per-trace catch-all handler: one bad trace fails the whole "
                        "flush, and the failure leaves the tracing context into the program", node=b)
        if not bad:
            ctx.ok("R-C03.5", fi.fq, f"all {len(uses)} use(s) of `{var}` in the loop are under `except Exception` (or only hand the object on)")
    ctx.floor("R-C03.5", "uses of the per-trace loop variable", n, 1)
    # the only caller on the flush path
    add = repo.method(repo.cls("monkeytype.db.sqlite", "SQLiteStore"), "add")
    ctx.check(any(is_call_to(c, "serialize_traces") for c in calls_in(add.node)), "R-C03.5", add.fq,
              "the stock store serializes a batch through serialize_traces", construct="serialize_traces call in SQLiteStore.add")


GLOBAL_RNG_FUNCS = {"random", "randrange", "randint", "choice", "choices", "shuffle", "sample", "uniform", "getrandbits", "seed", "setstate",
                    "gauss", "normalvariate", "triangular", "betavariate", "expovariate", "randbytes"}


def rule_program_visible_state(ctx: Ctx, repo: Repo) -> None:
    """R-C03.6: nothing the profile function can reach consumes or sets process-wide state the traced program observes.
    The module-level functions of `random` all work on ONE hidden generator shared with the program: a draw by the tracer
    shifts every later random number the program sees (and a program that re-seeds decides the tracer's draws)."""
    start = repo.method(repo.cls(M, "CallTracer"), "__call__")
    # the functions the profile function can reach: the call graph the taint analysis follows (it sees through dispatch
    # tables of handlers, filter/map callbacks and helper lambdas), plus plain resolution of every call in them
    ta = T.Taint(repo, {start.fq: {start.positional_params()[3]: T.VAL}}, lambda f_: f_.module.name.startswith("monkeytype."))
    todo, seen = list(ta.fns.values()), {}
    while todo:
        fi = todo.pop()
        if fi.fq in seen:
            continue
        seen[fi.fq] = fi
        for c in calls_in(fi.node):
            callee = repo.resolve_callee(fi, c)
            if callee is not None and callee.fq.startswith("monkeytype.") and callee.fq not in seen:
                todo.append(callee)
    n = 0
    for fq, fi in sorted(seen.items()):
        for c in calls_in(fi.node):
            d = dotted(c.func) or ""
            head, _, tail = d.rpartition(".")
            target = fi.module.imports.get(d.split(".")[0], "") if d else ""
            is_global = (head == "random" and fi.module.imports.get("random", "random") == "random" and tail in GLOBAL_RNG_FUNCS) or \
                (not head and target.startswith("random.") and target.split(".")[-1] in GLOBAL_RNG_FUNCS)
            n += 1
            if is_global:
                ctx.violate("R-C03.6", fq, f"{'random.' + tail if head else target}(...) on the process-wide generator",
                            "the tracer consumes (or sets) the module-level random generator the traced program shares: with sampling on, the program's own random numbers differ from an untraced run",
                            node=c)
            else:
                ctx.ok("R-C03.6", fq, "the call does not touch the process-wide random generator")
    ctx.floor("R-C03.6", "calls reachable from the profile function examined for process-wide state", n, 30)


# Standard-library calls that set state of the whole process (registries, hooks, limits, the warning filter, ...): the traced
# program shares that state, so a call of one of them by the package - at import, which happens in the program's interpreter
# before the program starts, or later - changes what the program computes or prints.  sys.setprofile is not listed: installing
# and restoring the profiler is what R-C03.3 decides.
PROCESS_WIDE_SETTERS = {
    "sqlite3.register_adapter", "sqlite3.register_converter", "sqlite3.enable_callback_tracebacks",
    "sys.setrecursionlimit", "sys.setswitchinterval", "sys.settrace", "sys.setdlopenflags", "sys.set_int_max_str_digits", "sys.set_asyncgen_hooks",
    "sys.set_coroutine_origin_tracking_depth", "sys.addaudithook",
    "threading.setprofile", "threading.settrace", "threading.setprofile_all_threads", "threading.settrace_all_threads", "threading.stack_size",
    "warnings.simplefilter", "warnings.filterwarnings", "warnings.resetwarnings",
    "logging.basicConfig", "logging.disable", "logging.setLoggerClass", "logging.captureWarnings", "logging.setLogRecordFactory", "logging.addLevelName",
    "os.chdir", "os.umask", "os.putenv", "os.unsetenv", "os.nice", "os.setpgrp", "locale.setlocale",
    "signal.signal", "signal.alarm", "signal.setitimer", "signal.set_wakeup_fd", "atexit.register", "atexit.unregister",
    "gc.disable", "gc.enable", "gc.set_threshold", "gc.set_debug", "gc.freeze", "faulthandler.enable", "faulthandler.disable",
    "socket.setdefaulttimeout", "decimal.setcontext", "copyreg.pickle", "copyreg.constructor", "codecs.register", "codecs.register_error",
    "mimetypes.add_type", "mimetypes.init", "time.tzset", "tracemalloc.start", "tracemalloc.stop", "multiprocessing.set_start_method",
    "asyncio.set_event_loop_policy", "asyncio.set_event_loop", "random.seed", "random.setstate",
}
# process-wide objects whose mutation the program sees: `sys.path.insert(...)`, `os.environ[...] = ...`, `sys.stdout = ...`
PROCESS_WIDE_OBJECTS = {"sys.path", "sys.modules", "sys.meta_path", "sys.path_hooks", "sys.argv", "os.environ", "sys.warnoptions", "warnings.filters"}
PROCESS_WIDE_ATTRS = {"sys": None, "builtins": None, "os": {"environ"}}  # module -> attributes that may not be assigned (None: any)
MUTATING_METHODS = {"insert", "append", "extend", "remove", "pop", "clear", "update", "setdefault", "popitem", "sort", "reverse", "__setitem__", "__delitem__"}
# the command line front end is its own process set-up, documented as such: `monkeytype run script.py` runs the script like
# `python script.py` would (own sys.argv, current directory importable)
# keyed by (module, object): WHICH function of the front end does it is the front end's own business
PROCESS_WIDE_ALLOWED = {
    ("monkeytype.cli", "sys.argv"): "`monkeytype run` gives the script the argv it would have as `python script.py args` and restores it",
    ("monkeytype.cli", "sys.path"): "the command line tool makes the current directory importable, as `python` itself does",
    ("monkeytype.compat", "mypy_extensions._TypedDictMeta.__eq__"):
        "the one catalogued patch: TypedDict classes compare by name, totality and fields (compat_rules decides what it answers); hashing stays by identity",
}


def rule_process_wide_setters(ctx: Ctx, repo: Repo) -> None:
    """R-C03.6 (second half): no code of the package - module level, class bodies, functions - calls a standard-library
    function that sets process-wide state, or mutates / rebinds a process-wide object, outside the allowed table."""
    n = n_allowed = 0
    # the library part: what `import monkeytype` (and so every traced program) loads; the command line front end is allowed its
    # own process set-up only as long as the library does not import it
    library_closure: Set[str] = set()
    todo_m = ["monkeytype"]
    while todo_m:
        mn = todo_m.pop()
        if mn in library_closure or mn not in repo.modules:
            continue
        library_closure.add(mn)
        for tgt in repo.modules[mn].imports.values():
            parts = tgt.split(".")
            for i in range(len(parts), 0, -1):
                cand = ".".join(parts[:i])
                if cand in repo.modules:
                    todo_m.append(cand)
                    break
    for mod in repo.modules.values():
        if not mod.name.startswith("monkeytype"):
            continue
        owner_of: Dict[int, str] = {}
        for fi in mod.functions.values():
            for x in ast.walk(fi.node):
                owner_of.setdefault(id(x), fi.fq)
        # innermost function wins: walk functions sorted by nesting depth (qualname length) descending
        for fi in sorted(mod.functions.values(), key=lambda f: -len(f.qualname.split("."))):
            for x in walk_no_nested(fi.node):
                owner_of[id(x)] = fi.fq

        def canon(e: ast.AST) -> Optional[str]:
            d = dotted(e)
            if d is None:
                return None
            head, _, rest = d.partition(".")
            target = mod.imports.get(head)
            if target is None:
                return None
            return target + ("." + rest if rest else "")

        def where(x: ast.AST) -> str:
            return owner_of.get(id(x), mod.name + ".<module level>")

        for x in ast.walk(mod.tree):
            hit: Optional[Tuple[str, str]] = None
            if isinstance(x, ast.Call):
                c = canon(x.func)
                n += 1
                if c in PROCESS_WIDE_SETTERS:
                    hit = (c, f"{c}(...) sets state of the whole process")
                elif isinstance(x.func, ast.Attribute) and x.func.attr in MUTATING_METHODS:
                    base = canon(x.func.value)
                    if base in PROCESS_WIDE_OBJECTS:
                        hit = (base, f"{base}.{x.func.attr}(...) changes a process-wide object")
            elif isinstance(x, (ast.Assign, ast.AugAssign, ast.AnnAssign, ast.Delete)):
                tgts = x.targets if isinstance(x, (ast.Assign, ast.Delete)) else [x.target]
                for t in tgts:
                    for tt in (t.elts if isinstance(t, (ast.Tuple, ast.List)) else [t]):
                        n += 1
                        if isinstance(tt, ast.Subscript):
                            base = canon(tt.value)
                            if base in PROCESS_WIDE_OBJECTS:
                                hit = (base, f"an item of {base} is assigned")
                        elif isinstance(tt, ast.Attribute):
                            base = canon(tt.value)
                            full = canon(tt)
                            if base in PROCESS_WIDE_ATTRS and (PROCESS_WIDE_ATTRS[base] is None or tt.attr in PROCESS_WIDE_ATTRS[base]):  # type: ignore[operator]
                                hit = (full or f"{base}.{tt.attr}", f"{base}.{tt.attr} is rebound")
                            elif base is not None and not base.startswith("monkeytype") and isinstance(x, (ast.Assign, ast.AugAssign, ast.AnnAssign)):
                                # an attribute of an object imported from another distribution is assigned: a monkey patch every
                                # user of that object in the process gets to see
                                hit = (full or f"{base}.{tt.attr}", f"{base}.{tt.attr} is assigned: a patch of an object that belongs to another package")
            if hit is None:
                continue
            w = where(x)
            if (mod.name, hit[0]) in PROCESS_WIDE_ALLOWED and (mod.name not in library_closure or mod.name == "monkeytype.compat"):
                n_allowed += 1
                ctx.ok("R-C03.6", w, f"{hit[1]}: allowed - {PROCESS_WIDE_ALLOWED[(mod.name, hit[0])]}")
                continue
            ctx.violate("R-C03.6", w, hit[1],
                        "the package changes state that the traced program shares with it (the package is imported and runs inside the program's interpreter): the program no longer behaves as it does untraced",
                        node=x)
    ctx.floor("R-C03.6", "calls and assignments of the package examined for process-wide state", n, 500)
    # the recogniser is alive: the command line front end's own (allowed) set-up is seen on every run
    ctx.floor("R-C03.6", "process-wide constructs recognised (the allowed ones of the command line front end)", n_allowed, 1)


def run(ctx: Ctx, repo: Repo, tier: str) -> None:
    ctx.trust(
        "CPython data model: isinstance() falls back to obj.__class__; getattr/hasattr/attribute access run __getattribute__/"
        "__getattr__/descriptors; ==, in, bool(), hash(), str/repr/format and container-protocol calls dispatch to the object's "
        "class; `is`, type(), id(), callable(), inspect.getattr_static do not",
        "exact builtin container types (type(v) is list/set/dict/defaultdict/tuple) have no user-defined protocol methods",
        "an exception leaving a sys.setprofile function is raised into the traced program and uninstalls the profiler",
    )
    ctx.assume(
        "instances of subclasses of classmethod / staticmethod / property / cached_property that override special methods are "
        "treated like their builtin base (residual of the issubclass(type(v), K) guards)",
        "class objects (type(v), and values under an issubclass(type(v), type) guard) are hookable only through a metaclass; "
        "class-level operations are not reported",
        "the configured CallTraceLogger is outside the analysed call graph",
    )
    ctx.attempt(rule_effects, ctx, repo)
    ctx.attempt(rule_containment, ctx, repo)
    ctx.attempt(rule_restore_flush, ctx, repo)
    ctx.attempt(rule_exit_contained, ctx, repo)
    ctx.attempt(rule_serializer_contained, ctx, repo)
    ctx.attempt(rule_program_visible_state, ctx, repo)
    ctx.attempt(rule_process_wide_setters, ctx, repo)
    ctx.settle()
