"""Helpers shared by the rule modules."""
from __future__ import annotations

import ast
import opcode as _opcode
from typing import Any, Callable, Dict, Iterable, List, Optional, Sequence, Set, Tuple

from mtsa.absint import Interp, K, R, Ref, S, U, V, State, truth, new_frame_id
from mtsa.cfg import CFG, Node
from mtsa.index import (
    FunctionInfo,
    Module,
    Repo,
    bind_args,
    call_name,
    calls_in,
    dotted,
    norm,
    walk_no_nested,
)
from mtsa.report import AnalysisError, Ctx

_CFG_CACHE: Dict[int, CFG] = {}


def cfg_of(fi: FunctionInfo) -> CFG:
    k = id(fi.node)
    if k not in _CFG_CACHE:
        _CFG_CACHE[k] = CFG(fi.node, name=fi.fq)
    return _CFG_CACHE[k]


def where(fi: FunctionInfo) -> str:
    return fi.fq


def is_name(e: ast.AST, name: str) -> bool:
    return isinstance(e, ast.Name) and e.id == name


def is_const(e: ast.AST, value: Any = ...) -> bool:
    if not isinstance(e, ast.Constant):
        return False
    return True if value is ... else (e.value == value and type(e.value) is type(value))


def is_none(e: Optional[ast.AST]) -> bool:
    return e is None or (isinstance(e, ast.Constant) and e.value is None)


def is_call_to(e: ast.AST, *names: str) -> bool:
    """Call whose callee's dotted name (or last attribute) is one of names."""
    if not isinstance(e, ast.Call):
        return False
    d = dotted(e.func)
    if d is None:
        if isinstance(e.func, ast.Attribute):
            return e.func.attr in names
        return False
    return d in names or d.split(".")[-1] in names


def method_call(e: ast.AST, attr: str) -> bool:
    return isinstance(e, ast.Call) and isinstance(e.func, ast.Attribute) and e.func.attr == attr


def guard_texts(g: CFG, node: int) -> List[Tuple[str, bool, Node]]:
    return [(norm(n.ast), pol, n) for n, pol in g.guards(node)]


def has_guard(g: CFG, node: int, pred: Callable[[ast.AST, bool], bool], same_value_of: Optional[ast.AST] = None) -> bool:
    """Some condition atom satisfying pred(atom, polarity) holds on every path to node."""
    for n, pol in g.guards(node):
        if pred(n.ast, pol):
            if same_value_of is not None and not g.same_value(same_value_of, n.id, node):
                continue
            return True
    return False


def returns_of(fi: FunctionInfo) -> List[Tuple[Node, Optional[ast.AST]]]:
    g = cfg_of(fi)
    return [(n, n.ast.value) for n in g.stmts() if n.kind == "stmt" and isinstance(n.ast, ast.Return)]


def comprehension_conditions(e: ast.AST) -> List[ast.AST]:
    out = []
    for n in ast.walk(e):
        if isinstance(n, ast.comprehension):
            out.extend(n.ifs)
    return out


def find_nodes(g: CFG, pred: Callable[[ast.AST], bool]) -> List[Tuple[Node, ast.AST]]:
    out = []
    for n in g.stmts():
        for x in n.walk():
            if pred(x):
                out.append((n, x))
    return out


# typing alias -> the token of the runtime class its __origin__ is (List[int].__origin__ is list): code may compare an
# origin with the builtin or collections class by identity
_ORIGIN_RUNTIME = {"List": "builtin:list", "Set": "builtin:set", "Dict": "builtin:dict", "Tuple": "builtin:tuple", "Type": "builtin:type",
                   "FrozenSet": "builtin:frozenset", "DefaultDict": "mod:collections.defaultdict", "Deque": "mod:collections.deque",
                   "OrderedDict": "mod:collections.OrderedDict", "Counter": "mod:collections.Counter", "ChainMap": "mod:collections.ChainMap"}


def origin_token(alias_name: str) -> S:
    return S(_ORIGIN_RUNTIME.get(alias_name, "origin:" + alias_name))


SELECTOR_ROLE = "monkeytype.tracing._has_code"


def code_selector(repo: Repo, ctx: Optional[Ctx] = None) -> FunctionInfo:
    """The function of tracing.py that selects a candidate by identity of its `__code__` with a given code object
    (named `_has_code` on the pinned tree).  Located by name first and by *role* otherwise - a module-level function of
    two positional parameters that reads `__code__` and compares with `is` - so that renaming the private helper is
    followed.  Findings about it stay keyed by the role name."""
    mod = repo.modules.get("monkeytype.tracing")
    if mod is None:
        raise AnalysisError("module monkeytype.tracing not found")
    named = mod.functions.get("_has_code")
    if named is not None:
        return named
    cands = []
    for fi in mod.functions.values():
        if fi.cls is not None or len(fi.positional_params()) != 2:
            continue
        reads = any((isinstance(x, ast.Attribute) and x.attr == "__code__") or (isinstance(x, ast.Constant) and x.value == "__code__") for x in ast.walk(fi.node))
        ident = any(isinstance(x, ast.Compare) and any(isinstance(o, ast.Is) for o in x.ops) for x in ast.walk(fi.node))
        if reads and ident:
            cands.append(fi)
    if len(cands) != 1:
        raise AnalysisError(f"anchor function monkeytype.tracing._has_code not found (and {len(cands)} functions play its role)")
    if ctx is not None:
        ctx.alias[cands[0].fq] = SELECTOR_ROLE
        ctx.note(f"{cands[0].fq} located by role (selects a candidate by `__code__ is code`); findings keyed as {SELECTOR_ROLE}")
    return cands[0]


# ---------------------------------------------------------------------------
# Abstract interpretation of repository functions
# ---------------------------------------------------------------------------

PLATFORM = "CPython opcode table of the analysing interpreter (opcode.opmap), read as data"


class RepoInterp:
    """Abstract interpreter bound to a function of the repository.

    * module-level constants are folded on demand (opcode.opmap[...] against the platform table)
    * calls to module-level functions / self-methods of the package listed in `inline` are
      interpreted (bounded depth)
    * `oracle` maps normalised expression text -> abstract value (the scenario)
    * any other unknown branch atom whose text is not in `may_fork` is an AnalysisError
    """

    def __init__(
        self,
        repo: Repo,
        fi: FunctionInfo,
        oracle: Optional[Dict[str, V]] = None,
        inline: Optional[Iterable[str]] = None,
        may_fork: Iterable[str] = (),
        call_hook: Optional[Callable[..., Optional[V]]] = None,
        max_depth: int = 12,
        heap: bool = False,
    ) -> None:
        self.repo = repo
        self.fi = fi
        self.oracle = dict(oracle or {})
        # default: helpers of the entry function's own module (and methods of its class) are interpreted, so that
        # extracting a few lines into a helper does not blind a rule
        self.inline = set(inline) if inline is not None else {f.fq for f in fi.module.functions.values()}
        self.may_fork = set(may_fork)
        self.call_hook = call_hook
        self.max_depth = max_depth
        self.heap = heap
        self.depth = 0
        self.cur_fi = fi
        self.forked: List[str] = []
        self.interp = _OracleInterp(self)
        self.interp.on_default_factory = self.on_default_factory  # type: ignore[attr-defined]
        self.interp.on_with = self.on_with  # type: ignore[attr-defined]
        self.interp.on_with_object = self.on_with_object  # type: ignore[attr-defined]

    # ---- hooks ---------------------------------------------------------------
    def on_name(self, name: str, st: State) -> Optional[V]:
        mod = self.cur_fi.module
        if name in mod.constants and self.heap and _is_mutable_ctor(mod.constants[name]):
            # a module-level mutable object (a cache, a registry): one object per run, shared by every call of the run
            key = f"__global__:{mod.name}.{name}"
            if key not in st.env:
                st.env[key] = self.interp.eval(mod.constants[name], st)
            return st.env[key]
        if name in mod.constants and self.heap and isinstance(mod.constants[name], ast.Call) and isinstance(mod.constants[name].func, ast.Name) \
                and mod.constants[name].func.id in mod.classes:
            # a module-level INSTANCE of a class of the module (`_collecting = _LoggedFailures("...")`): one object per run
            key = f"__global__:{mod.name}.{name}"
            if key not in st.env:
                saved_ci, saved_fi = self.construct_instances, self.cur_fi
                self.construct_instances = True
                self.cur_fi = FunctionInfo(mod, "<module>", ast.parse("def _m(): pass").body[0])
                try:
                    st.env[key] = self.interp.eval(mod.constants[name], st)
                finally:
                    self.construct_instances, self.cur_fi = saved_ci, saved_fi
            return st.env[key]
        if name in mod.constants:
            return fold_const(self.repo, mod, name)
        if name in mod.imports:
            target = mod.imports[name]
            m2, _, n2 = target.rpartition(".")
            mod2 = self.repo.modules.get(m2)
            if mod2 is not None and mod2 is not mod and n2 in mod2.constants and n2 not in mod2.functions and n2 not in mod2.classes:
                # a constant defined in another module of the package and imported here: the same object
                saved = self.cur_fi
                self.cur_fi = FunctionInfo(mod2, "<module>", ast.parse("def _m(): pass").body[0])
                try:
                    return self.on_name(n2, st)
                finally:
                    self.cur_fi = saved
            return S("mod:" + target)
        if self.cur_fi.cls is not None and self.cur_fi.qualname.endswith(".<class body>") and name in self.cur_fi.cls.attrs and name not in st.env:
            # inside a class body (a default value of a method's parameter, another class-level constant) an earlier
            # class-level name denotes its value
            return self.interp.eval(self.cur_fi.cls.attrs[name], st)
        if self.cur_fi.cls is not None and self.cur_fi.qualname.endswith(".<class body>") and name in self.cur_fi.cls.methods:
            # inside a class body a method's bare name denotes the plain function (`TABLE = (method_a, method_b)`)
            return S("func:" + self.cur_fi.cls.methods[name].fq)
        if name in mod.classes:
            return S("class:" + mod.name + "." + name)
        if name in mod.functions:
            return S("func:" + mod.name + "." + name)
        import builtins as _b
        if hasattr(_b, name) and name not in ("True", "False", "None"):
            return S("builtin:" + name)
        return None

    def on_attr(self, obj: V, attr: str, node: ast.AST, st: State) -> Optional[V]:
        ci = None
        if attr == "__dict__" and isinstance(obj, Ref) and obj.kind == "obj" and isinstance(st.deref(obj), dict):
            return Ref(obj.id, "dict")  # the object's own attribute dictionary (what vars(obj) hands out): the same storage
        if isinstance(obj, S) and obj.name == "self" and self.self_class is not None:
            # a class-level constant read through the instance (`self._KINDS`); instance attributes are the scenario's business
            for c in self.repo.mro(self.self_class):
                if attr in c.attrs:
                    ci = self.self_class
                    break
        if isinstance(obj, R) and obj.kind == "inst":
            ci = self.class_of(obj)
        elif isinstance(obj, Ref) and obj.kind == "obj":
            cfq = st.deref(obj).get("__class__")
            if isinstance(cfq, K):
                mn, _, cn = cfq.v.rpartition(".")
                ci = self.repo.cls(mn, cn, required=False)
        if ci is not None and isinstance(obj, Ref) and obj.kind == "obj" and self.heap and ci.name.split(".")[-1].startswith("_") \
                and not isinstance(getattr(node, "ctx", None), ast.Store):
            m_b = self.repo.method(ci, attr)
            par_call = getattr(node, "_mtsa_is_callee", False)
            if m_b is not None and "property" not in m_b.decorators() and attr not in st.deref(obj) and not par_call:
                return R("boundmethod", name=K(attr), self=obj)  # a bound method of a private helper object, as a value
        if ci is not None:
            for c in self.repo.mro(ci):
                if attr in c.attrs:
                    saved = self.cur_fi
                    self.cur_fi = FunctionInfo(c.module, c.name + ".<class body>", ast.parse("def _m(): pass").body[0], c)
                    try:
                        return self.interp.eval(c.attrs[attr], st)
                    finally:
                        self.cur_fi = saved
                m = c.methods.get(attr)
                if m is not None and "property" in m.decorators():
                    saved_c = self.self_class
                    self.self_class = ci
                    try:
                        return self.inline_call(m, ast.Call(func=ast.Name(id=attr, ctx=ast.Load()), args=[], keywords=[]), obj, [], {}, st)
                    finally:
                        self.self_class = saved_c
        if isinstance(obj, R) and obj.kind == "nt":
            ci_n = self.class_of_nt(obj)
            m_n = self.repo.method(ci_n, attr) if ci_n is not None else None
            if m_n is not None and "property" in m_n.decorators():
                return self.inline_call(m_n, ast.Call(func=ast.Name(id=attr, ctx=ast.Load()), args=[], keywords=[]), obj, [], {}, st)
        if attr == "_fields" and isinstance(obj, S) and obj.name.startswith("class:"):
            mn_, _, cn_ = obj.name[len("class:"):].rpartition(".")
            ci_f = self.repo.cls(mn_, cn_, required=False)
            if ci_f is not None and self._nt_fields(ci_f) is not None:
                return K(tuple(self._nt_fields(ci_f)[0]))  # type: ignore[index]
        if isinstance(obj, S) and obj.name == "mod:inspect" and attr.startswith("CO_"):
            import inspect as _i
            if hasattr(_i, attr):
                return K(getattr(_i, attr))  # platform constant
        if isinstance(obj, S) and obj.name.startswith("mod:"):
            return S(obj.name + "." + attr)
        if isinstance(obj, S) and obj.name.startswith("class:"):
            mn_m, _, cn_m = obj.name[len("class:"):].rpartition(".")
            ci_m = self.repo.cls(mn_m, cn_m, required=False)
            is_enum = ci_m is not None and any(b.split(".")[-1] in ("Enum", "IntEnum", "Flag", "IntFlag", "StrEnum") for c_e in self.repo.mro(ci_m) for b in c_e.bases)
            if ci_m is not None and not is_enum and not isinstance(getattr(node, "ctx", None), ast.Store):  # (an Enum's names denote member objects, not the values written)
                for c_m in self.repo.mro(ci_m):
                    if attr in c_m.attrs and attr not in c_m.methods:
                        # `Class.CONSTANT`: a class-level constant read through the class
                        saved_m = self.cur_fi
                        self.cur_fi = FunctionInfo(c_m.module, c_m.name + ".<class body>", ast.parse("def _m(): pass").body[0], c_m)
                        try:
                            return self.interp.eval(c_m.attrs[attr], st)
                        finally:
                            self.cur_fi = saved_m
            m_m = self.repo.method(ci_m, attr) if ci_m is not None else None
            if m_m is not None and not isinstance(getattr(node, "ctx", None), ast.Store) and getattr(self, "class_methods_as_values", True) \
                    and ("staticmethod" in m_m.decorators()):
                return S("func:" + m_m.fq)  # Class.static_method as a value (an alias kept in a local)
            if m_m is not None and not isinstance(getattr(node, "ctx", None), ast.Store) and not getattr(node, "_mtsa_is_callee", False) \
                    and not m_m.decorators() and cn_m.split(".")[-1].startswith("_") and self.heap:
                return S("func:" + m_m.fq)  # _Private.method as a plain function value (a row of a dispatch table): called with an explicit receiver
            return S(obj.name[len("class:"):] + "." + attr)
        return None

    def on_subscript(self, obj: V, key: V, node: ast.AST, st: State) -> Optional[V]:
        if isinstance(obj, K) and isinstance(obj.v, (bytes, str, tuple)) and isinstance(key, K) and isinstance(key.v, int):
            try:
                x = obj.v[key.v]
            except IndexError:
                st.effects.append(("IndexError", norm(node)))
                st.pending = st.pending or "IndexError"
                return U("IndexError")
            return x if isinstance(x, V) else K(x)
        return platform_subscript(obj, key)

    STDLIB_HEADS = ("operator", "functools", "itertools", "contextlib", "collections", "keyword", "re", "os", "inspect", "importlib", "sysconfig", "typing")

    def on_call(self, call: ast.Call, fname: Optional[str], fval: Optional[V], args: List[V], kwargs: Dict[str, V], st: State) -> Optional[V]:
        if fname and isinstance(call.func, (ast.Name, ast.Attribute)) and fname.split(".")[0] not in st.env:
            # `from operator import methodcaller as _mc`: the call is named by what the alias stands for
            head, _, rest = fname.partition(".")
            tgt = self.cur_fi.module.imports.get(head)
            if tgt and tgt != head and tgt.split(".")[0] in self.STDLIB_HEADS and (tgt.split(".")[-1] != head or "." in tgt):
                canon = tgt + ("." + rest if rest else "")
                if canon.split(".")[-1] != fname.split(".")[-1] or head != tgt.split(".")[-1]:
                    fname = canon
        if isinstance(call.func, ast.Attribute) and isinstance(call.func.value, ast.Call) and isinstance(call.func.value.func, ast.Name) and call.func.value.func.id == "super" \
                and not call.func.value.args and "super" not in st.env and self.cur_fi.cls is not None and self.cur_fi.positional_params():
            # super().m(...): the next definition of m after the class the running method is written in, along the MRO of
            # the receiver's class
            owner = self.cur_fi.cls
            recv_s = st.env.get(self.cur_fi.positional_params()[0])
            start = self._class_of_ref(recv_s, st) if isinstance(recv_s, Ref) and recv_s.kind == "obj" else self.self_class
            chain = self.repo.mro(start if start is not None else owner)
            fqs = [c.fq for c in chain]
            rest_c = chain[fqs.index(owner.fq) + 1:] if owner.fq in fqs else self.repo.mro(owner)[1:]
            m_s = next((c.methods[call.func.attr] for c in rest_c if call.func.attr in c.methods), None)
            if m_s is not None and recv_s is not None:
                return self._inline_call(m_s, call, recv_s, list(args), dict(kwargs), st)
            if m_s is None and call.func.attr in ("__init__", "__init_subclass__", "__post_init__"):
                return K(None)  # object.__init__
        if isinstance(fval, R) and fval.kind == "rawfunc" and isinstance(call.func, ast.Name):
            # the undecorated function a package decorator was handed
            raw = next((f for f in self.repo.all_functions() if f.fq == fval.fields["fq"].v), None)
            if raw is None:
                raise AnalysisError(f"undecorated function {fval.fields['fq'].v} not found")
            if raw.cls is not None and args and "staticmethod" not in raw.decorators() and raw.positional_params()[:1] in (["self"], ["cls"]):
                recv_r = args[0]
                saved_r = self.self_class
                if isinstance(recv_r, Ref) and recv_r.kind == "obj" and self._class_of_ref(recv_r, st) is not None:
                    self.self_class = self._class_of_ref(recv_r, st)
                elif isinstance(recv_r, S) and recv_r.name == "self" and self.self_class is None:
                    self.self_class = raw.cls
                try:
                    return self._inline_call(raw, call, recv_r, list(args[1:]), kwargs, st)
                finally:
                    self.self_class = saved_r
            return self._inline_call(raw, call, None, args, kwargs, st)
        if fval is None and isinstance(call.func, ast.Name) and call.func.id not in st.env and call.func.id in self.cur_fi.module.constants \
                and isinstance(self.cur_fi.module.constants[call.func.id], ast.Attribute) and isinstance(self.cur_fi.module.constants[call.func.id].value, ast.Constant) \
                and isinstance(self.cur_fi.module.constants[call.func.id].value.value, str):
            # NAME = "template {x}".format  - a bound method of a string constant kept under a name: NAME(...) is that call
            cnode = self.cur_fi.module.constants[call.func.id]
            fake_s = ast.Call(func=cnode, args=call.args, keywords=call.keywords)
            ast.copy_location(fake_s, call)
            return self.interp.eval(fake_s, st)
        if fval is None and isinstance(call.func, ast.Name) and call.func.id not in st.env and call.func.id in self.cur_fi.module.constants \
                and call.func.id not in self.cur_fi.module.functions and call.func.id not in self.cur_fi.module.classes:
            # a module-level constant that holds a callable value (operator.attrgetter(...), a lambda, functools.partial(...))
            held_c = self.on_name(call.func.id, st)
            if isinstance(held_c, R) and held_c.kind == "localfunc":
                return self.interp._call_local(held_c, list(args), dict(kwargs), st)
            if isinstance(held_c, R) and held_c.kind in ("accessor", "partial"):
                fval = held_c
        if isinstance(fval, Ref) and fval.kind == "obj" and isinstance(call.func, ast.Name) and call.func.id in st.env:
            v_co = self.call_value(fval, call, args, kwargs, st)  # a local / parameter that holds a callable object of the package
            if v_co is not None:
                return v_co
        if isinstance(fval, R) and fval.kind == "boundmethod" and (isinstance(fval.fields.get("self"), Ref) or (isinstance(fval.fields.get("self"), S) and "cls" in fval.fields)) \
                and isinstance(call.func, ast.Name):
            v_bm = self.call_value(fval, call, args, kwargs, st)
            if v_bm is not None:
                return v_bm
        if isinstance(fval, R) and fval.kind == "partial" and isinstance(call.func, ast.Name) and "**" not in kwargs:
            return self.apply_callable(call.func, list(args), st, dict(kwargs))  # a local holding functools.partial(f, ...)
        if kwargs and "**" not in kwargs:
            # canonical argument form for package callees: leading parameters given by keyword become positional, so
            # that f(a, b) and f(x=a, y=b) look the same to every hook and rule
            try:
                callee_c = self.resolve(call, fval)
            except Exception:
                callee_c = None
            if callee_c is not None and not any(isinstance(a, R) and a.kind == "starred" for a in args):
                ps_c = callee_c.positional_params()
                if callee_c.cls is not None and ps_c and ps_c[0] in ("self", "cls") and "staticmethod" not in callee_c.decorators():
                    ps_c = ps_c[1:]
                i_c = len(args)
                while i_c < len(ps_c) and ps_c[i_c] in kwargs:
                    args.append(kwargs.pop(ps_c[i_c]))
                    i_c += 1
        if self.call_hook is not None:
            v = self.call_hook(call, fname, fval, args, kwargs, st)
            if v is not None:
                return v
        if self.heap and isinstance(call.func, ast.Attribute) and call.func.attr in ("split", "rsplit") and isinstance(fval, K) and isinstance(fval.v, str) \
                and all(isinstance(a, K) for a in args):
            try:
                return st.alloc("list", [K(x) for x in getattr(fval.v, call.func.attr)(*[a.v for a in args])])
            except Exception:
                return None
        if fname == "id" and len(args) == 1 and not kwargs and self.heap and not (isinstance(args[0], (U,))):
            return self.model_id(args[0], st)
        v = platform_call(fname, fval, call, args, kwargs)
        if v is not None:
            return v
        v = self.generic_call(call, fname, fval, args, kwargs, st)
        if v is not None:
            return v
        callee = self.resolve(call, fval)
        if callee is not None and (callee.fq in self.inline or callee.qualname in self.inline):
            if isinstance(call.func, ast.Name) and isinstance(fval, S) and fval.name.startswith("func:") and callee.cls is not None and args \
                    and "staticmethod" not in callee.decorators() and callee.positional_params()[:1] == ["self"]:
                # a method held as a plain function and called with an explicit receiver: f(obj, a, b)
                recv = args[0]
                saved_sc = self.self_class
                ci_r = self._class_of_ref(recv, st) if isinstance(recv, Ref) and recv.kind == "obj" else None
                if ci_r is not None:
                    self.self_class = ci_r
                try:
                    return self.inline_call(callee, call, recv, list(args[1:]), kwargs, st)
                finally:
                    self.self_class = saved_sc
            return self.inline_call(callee, call, fval if isinstance(call.func, ast.Attribute) else None, args, kwargs, st)
        if not isinstance(call.func, (ast.Name, ast.Attribute)) and fval is not None:
            # the callee is computed: TABLE[key](...), (f or g)(...)
            v_cv = self.call_value(fval, call, args, kwargs, st)
            if v_cv is not None:
                return v_cv
        return None

    def on_default_factory(self, factory: str, st: State) -> Optional[V]:
        """`collections.defaultdict(SomeClassOfThePackage)`: a missing key gets a new instance, built by the class's __init__"""
        mn, _, cn = factory.rpartition(".")
        ci = self.repo.cls(mn, cn, required=False) if mn else self.repo.resolve_class(self.cur_fi.module, factory)
        if ci is None:
            return None
        saved_ci, saved_fi = self.construct_instances, self.cur_fi
        self.construct_instances = True
        self.cur_fi = FunctionInfo(ci.module, "<module>", ast.parse("def _m(): pass").body[0])
        try:
            node = ast.parse(f"{ci.name}()", mode="eval").body
            return self.interp.eval(node, st)
        finally:
            self.construct_instances, self.cur_fi = saved_ci, saved_fi

    def _new_dataclass(self, ci: Any, call: ast.Call, args: List[V], kwargs: Dict[str, V], st: State) -> Optional[V]:
        """an instance of a @dataclass of the package that has no __init__ of its own: the generated one binds the arguments to
        the annotated fields in class-body order, defaults from the class body; then __post_init__ if there is one"""
        fields_dc = self._dataclass_fields(ci)
        if fields_dc is None:
            return None
        attrs_dc: Dict[str, Any] = {"__class__": K(ci.fq)}
        names_dc = [n_ for n_, _ in fields_dc]
        if len(args) > len(names_dc) or any(k_ not in names_dc for k_ in kwargs):
            st.pending = st.pending or "TypeError"
            return U("dataclass arguments")
        for n_, a_ in zip(names_dc, args):
            attrs_dc[n_] = a_
        for k_, v_ in kwargs.items():
            attrs_dc[k_] = v_
        for n_, dflt in fields_dc:
            if n_ not in attrs_dc:
                if dflt is None:
                    st.pending = st.pending or "TypeError"
                    return U("missing dataclass argument " + n_)
                attrs_dc[n_] = self.interp.eval(dflt, st)
        obj_dc = st.alloc("obj", attrs_dc)
        post = self.repo.method(ci, "__post_init__")
        if post is not None:
            self.inline_call(post, call, obj_dc, [], {}, st)
        return obj_dc

    def _dataclass_fields(self, ci: Any) -> Optional[List[Tuple[str, Optional[ast.AST]]]]:
        """[(field, default expression | None)] of a class decorated with @dataclass / @dataclasses.dataclass(...), in class-body
        order (ClassVar annotations are not fields); None if the class is not a dataclass"""
        decos = [dotted(d.func if isinstance(d, ast.Call) else d) or "" for d in getattr(ci.node, "decorator_list", [])]
        if not any(d.split(".")[-1] == "dataclass" for d in decos):
            return None
        out: List[Tuple[str, Optional[ast.AST]]] = []
        for c in reversed(self.repo.mro(ci)):
            for s2 in c.node.body:
                if isinstance(s2, ast.AnnAssign) and isinstance(s2.target, ast.Name) and "ClassVar" not in norm(s2.annotation):
                    dflt = s2.value
                    if isinstance(dflt, ast.Call) and (dotted(dflt.func) or "").split(".")[-1] == "field":
                        kw = {k_.arg: k_.value for k_ in dflt.keywords}
                        no_init = isinstance(kw.get("init"), ast.Constant) and kw["init"].value is False
                        dflt = kw.get("default") or (ast.Call(func=kw["default_factory"], args=[], keywords=[]) if "default_factory" in kw else None)
                        if dflt is not None:
                            ast.copy_location(dflt, s2)
                            ast.fix_missing_locations(dflt)
                        if no_init:
                            # field(init=False): not a parameter of the generated __init__; set later by the class's own code
                            out = [(n_, d_) for n_, d_ in out if n_ != s2.target.id]
                            if dflt is not None:
                                self._dc_noinit = getattr(self, "_dc_noinit", {})
                                self._dc_noinit.setdefault(ci.fq, {})[s2.target.id] = dflt
                            continue
                    out = [(n_, d_) for n_, d_ in out if n_ != s2.target.id] + [(s2.target.id, dflt)]
        return out

    # ---- id(): addresses are reused ------------------------------------------------------------------
    def model_id(self, obj: V, st: State) -> V:
        """id(x).  Within one top-level call distinct objects have distinct ids.  An object that was id()-ed during an
        *earlier* top-level call of the history and is no longer referenced from the heap or from module-level
        objects is dead: CPython hands its address to the next object allocated, so a different object of the
        current call gets the same id (the scenario picks that legal schedule)."""
        v = st.freeze(obj)

        def same(a: Any, b: Any) -> bool:
            # identity, not equality: records whose equality leaves fields out (code objects) are the same object only if those agree too
            return a.identical(b) if isinstance(a, R) and a.kind in R.NOT_COMPARED else a == b

        def id_of(x: Any) -> R:
            if isinstance(x, R) and x.kind in R.NOT_COMPARED:
                return R("id", of=x, which=K(repr(sorted((k_, repr(x.fields[k_])) for k_ in R.NOT_COMPARED[x.kind] if k_ in x.fields))))
            return R("id", of=x)
        key = "__global__:__idlog__"
        if key not in st.env:
            st.env[key] = st.alloc("list", [])
        log = st.deref(st.env[key])
        gen_v = st.env.get("__global__:__idgen__", K(0))
        gen = gen_v.v if isinstance(gen_v, K) else 0
        for ent in log:
            if same(ent.v[1], v):
                return id_of(v)
        for ent in log:
            g0, p0 = ent.v[0].v, ent.v[1]
            if g0 < gen and not self._reachable(p0, st, st.env[key]):
                log.append(K((K(gen), v)))
                return id_of(p0)
        log.append(K((K(gen), v)))
        return id_of(v)

    def _reachable(self, p: V, st: State, skip: Any) -> bool:
        def inside(x: Any, depth: int = 0) -> bool:
            if depth > 12:
                return False
            if (x.identical(p) if isinstance(x, R) and x.kind in R.NOT_COMPARED else x == p):
                return True
            if isinstance(x, Ref):
                return False  # followed through the heap scan below
            if isinstance(x, K) and isinstance(x.v, (tuple, frozenset)):
                return any(inside(y, depth + 1) for y in x.v)
            if isinstance(x, R):
                if x.kind == "id":
                    return False  # a number, not a reference
                return any(inside(y, depth + 1) for y in x.fields.values())
            if isinstance(x, tuple):
                return any(inside(y, depth + 1) for y in x)
            return False
        for rid, o in st.heap.items():
            if isinstance(skip, Ref) and rid == skip.id:
                continue
            if isinstance(o, list):
                if any(inside(y) for y in o):
                    return True
            else:
                d = o[2] if isinstance(o, tuple) else o
                if any(inside(k) or inside(y) for k, y in d.items()):
                    return True
        for k, x in st.env.items():
            if k.startswith("__global__:") and k not in ("__global__:__idlog__", "__global__:__idgen__") and inside(x):
                return True
        return False

    self_class: Any = None  # dynamic class of `self` in the scenario (method resolution starts there)
    dispatch_instances: bool = False  # method calls on R('inst', __cls__=...) records are resolved in their class
    construct_instances: bool = False  # Class(...) of a package class allocates an object and runs its __init__

    def class_of(self, inst: V) -> Any:
        if isinstance(inst, R) and inst.kind == "inst" and "__cls__" in inst.fields:
            fq = inst.fields["__cls__"].v
            m, _, c = fq.rpartition(".")
            return self.repo.cls(m, c, required=False)
        return None

    def apply_callable(self, fnode: ast.AST, args: List[V], st: State, kwargs: Optional[Dict[str, V]] = None) -> Optional[V]:
        """the value of fnode(*args) where fnode is the expression of a callable: a lambda, a local function, a function
        or method of the package, functools.partial(...) of one, or a builtin the platform catalogue folds"""
        it = self.interp
        if isinstance(fnode, ast.Lambda):
            return it._call_local(it._local_function(fnode, st), list(args), {}, st)
        fv = it.eval(fnode, st)
        if isinstance(fv, R) and fv.kind == "localfunc":
            return it._call_local(fv, list(args), {}, st)
        if isinstance(fv, R) and fv.kind == "partial":
            inner = fv.fields["call"].v
            pre = list(fv.fields["args"].v)
            kw_all = dict(fv.fields["kwargs"].v) if "kwargs" in fv.fields else {}
            kw_all.update(kwargs or {})  # keywords given at the call override the ones the partial holds
            fake = ast.Call(func=inner, args=[ast.Name(id=f"__a{i}", ctx=ast.Load()) for i in range(len(pre) + len(args))],
                            keywords=[ast.keyword(arg=kn, value=ast.Name(id=f"__k_{kn}", ctx=ast.Load())) for kn in kw_all])
            ast.copy_location(fake, inner)
            ast.fix_missing_locations(fake)
            sub = st
            saved = {}
            for i, v in enumerate(pre + list(args)):
                saved[f"__a{i}"] = sub.env.get(f"__a{i}")
                sub.env[f"__a{i}"] = v
            for kn, kv in kw_all.items():
                saved[f"__k_{kn}"] = sub.env.get(f"__k_{kn}")
                sub.env[f"__k_{kn}"] = kv
            try:
                return it.eval(fake, sub)
            finally:
                for k, v in saved.items():
                    if v is None:
                        sub.env.pop(k, None)
                    else:
                        sub.env[k] = v
        fake = ast.Call(func=fnode, args=[ast.Name(id=f"__a{i}", ctx=ast.Load()) for i in range(len(args))], keywords=[])
        ast.copy_location(fake, fnode)
        saved2 = {}
        for i, v in enumerate(args):
            saved2[f"__a{i}"] = st.env.get(f"__a{i}")
            st.env[f"__a{i}"] = v
        try:
            r = it.eval(fake, st)
        finally:
            for k, v in saved2.items():
                if v is None:
                    st.env.pop(k, None)
                else:
                    st.env[k] = v
        return None if isinstance(r, U) else r

    def generic_call(self, call: ast.Call, fname: Optional[str], fval: Optional[V], args: List[V], kwargs: Dict[str, V], st: State) -> Optional[V]:
        meth = call.func.attr if isinstance(call.func, ast.Attribute) else None
        it = self.interp
        tailname = (fname or "").split(".")[-1]
        if tailname == "partial" and (fname in ("partial", "functools.partial")) and call.args:
            return R("partial", call=K(call.args[0]), args=K(tuple(args[1:])), kwargs=K(tuple(kwargs.items())))
        if fname in ("itertools.repeat", "repeat") and len(args) == 1 and not kwargs and (fname != "repeat" or self.cur_fi.module.imports.get("repeat") == "itertools.repeat"):
            return R("repeat_forever", value=args[0])  # only meaningful next to a finite sequence in zip()
        if fname == "zip" and args and not kwargs:
            cols = [None if (isinstance(a, R) and a.kind == "repeat_forever") else it.iterate(a, st) for a in args]
            finite = [c for c, a in zip(cols, args) if not (isinstance(a, R) and a.kind == "repeat_forever")]
            if finite and all(c is not None for c in finite):
                n_z = min(len(c) for c in finite)
                cols2 = [([a.fields["value"]] * n_z) if (isinstance(a, R) and a.kind == "repeat_forever") else c for c, a in zip(cols, args)]
                return K(tuple(K(tuple(r)) for r in zip(*cols2)))
            return None
        if fname in ("operator.sub", "operator.add", "operator.or_", "operator.and_", "operator.xor", "operator.mul") and len(args) == 2 and not kwargs:
            # the function forms of the binary operators: evaluated as the operator they stand for
            op_b = {"sub": ast.Sub(), "add": ast.Add(), "or_": ast.BitOr(), "and_": ast.BitAnd(), "xor": ast.BitXor(), "mul": ast.Mult()}[fname.split(".")[1]]
            saved_b = {n_: st.env.get(n_) for n_ in ("__opl", "__opr")}
            st.env["__opl"], st.env["__opr"] = args[0], args[1]
            try:
                node_b = ast.BinOp(left=ast.Name(id="__opl", ctx=ast.Load()), op=op_b, right=ast.Name(id="__opr", ctx=ast.Load()))
                ast.copy_location(node_b, call)
                ast.fix_missing_locations(node_b)
                r_b = it.eval(node_b, st)
            finally:
                for n_, v_ in saved_b.items():
                    if v_ is None:
                        st.env.pop(n_, None)
                    else:
                        st.env[n_] = v_
            return None if isinstance(r_b, U) else r_b
        if tailname == "filterfalse" and fname in ("filterfalse", "itertools.filterfalse") and len(call.args) == 2 and not kwargs:
            seq_ff = it.iterate(args[1], st)
            import os as _os
            if seq_ff is None:
                return None
            out_ff: List[V] = []
            for x in seq_ff:
                r_ff: Optional[V] = x if (isinstance(call.args[0], ast.Constant) and call.args[0].value is None) else self.apply_callable(call.args[0], [x], st)
                if r_ff is None or st.pending is not None:
                    return None
                t_ff = it._value_truth(call.args[0], r_ff, st)
                if t_ff is None:
                    return None
                if not t_ff:
                    out_ff.append(x)
            return K(tuple(out_ff))
        if tailname in ("takewhile", "dropwhile", "filter", "map", "starmap") and fname in (tailname, "itertools." + tailname) and len(call.args) == 2 and not kwargs:
            seq = it.iterate(args[1], st)
            if seq is None:
                return None
            out_seq: List[V] = []
            dropping = True
            for x in seq:
                xs = [x]
                if tailname == "starmap":
                    xs2 = it.iterate(x, st)
                    if xs2 is None:
                        return None
                    xs = list(xs2)
                if tailname == "filter" and isinstance(call.args[0], ast.Constant) and call.args[0].value is None:
                    r: Optional[V] = x
                else:
                    r = self.apply_callable(call.args[0], xs, st)
                if r is None or st.pending is not None:
                    return None
                if tailname in ("map", "starmap"):
                    out_seq.append(r)
                    continue
                t = it._value_truth(call.args[0], r, st)
                if t is None:
                    return None
                if tailname == "filter":
                    if t:
                        out_seq.append(x)
                elif tailname == "takewhile":
                    if not t:
                        break
                    out_seq.append(x)
                else:
                    if dropping and t:
                        continue
                    dropping = False
                    out_seq.append(x)
            return K(tuple(out_seq))
        # operator.attrgetter("a", "b.c") / operator.itemgetter(0, 2): first-class accessors
        if fname in ("operator.is_", "operator.is_not", "operator.eq", "operator.ne", "operator.not_", "operator.truth", "operator.contains") and not kwargs \
                and len(args) == (1 if fname in ("operator.not_", "operator.truth") else 2):
            # the operator module's function forms of `is`, `==`, `not`, `in`: evaluated as the operator they stand for
            opn = fname.split(".")[1]
            names_o = [f"__op{i}" for i in range(len(args))]
            saved_o = {n_: st.env.get(n_) for n_ in names_o}
            for n_, a_ in zip(names_o, args):
                st.env[n_] = a_
            ld = [ast.Name(id=n_, ctx=ast.Load()) for n_ in names_o]
            if opn in ("not_", "truth"):
                node_o: ast.expr = ast.UnaryOp(op=ast.Not(), operand=ld[0]) if opn == "not_" else ast.UnaryOp(op=ast.Not(), operand=ast.UnaryOp(op=ast.Not(), operand=ld[0]))
            elif opn == "contains":
                node_o = ast.Compare(left=ld[1], ops=[ast.In()], comparators=[ld[0]])
            else:
                node_o = ast.Compare(left=ld[0], ops=[{"is_": ast.Is(), "is_not": ast.IsNot(), "eq": ast.Eq(), "ne": ast.NotEq()}[opn]], comparators=[ld[1]])
            ast.copy_location(node_o, call)
            ast.fix_missing_locations(node_o)
            try:
                t_o = it._truth_of(node_o, st)
            finally:
                for n_, v_ in saved_o.items():
                    if v_ is None:
                        st.env.pop(n_, None)
                    else:
                        st.env[n_] = v_
            return K(t_o) if t_o is not None else None
        if fname in ("operator.attrgetter", "attrgetter", "operator.itemgetter", "itemgetter") and args and not kwargs and all(isinstance(a, K) for a in args):
            return R("accessor", what=K("attr" if fname.endswith("attrgetter") else "item"), names=K(tuple(args)))
        if isinstance(fval, R) and fval.kind == "accessor" and fval.fields["what"].v in ("attr", "item") and not isinstance(call.func, ast.Attribute) and len(args) == 1 and not kwargs:
            got: List[V] = []
            for nm in fval.fields["names"].v:
                cur: V = args[0]
                if fval.fields["what"].v == "attr":
                    for part in str(nm.v).split("."):
                        tmp_name = "__acc_obj__"
                        saved_acc = st.env.get(tmp_name)
                        st.env[tmp_name] = cur
                        try:
                            cur = it.eval(ast.Attribute(value=ast.Name(id=tmp_name, ctx=ast.Load()), attr=part, ctx=ast.Load()), st)
                        finally:
                            if saved_acc is None:
                                st.env.pop(tmp_name, None)
                            else:
                                st.env[tmp_name] = saved_acc
                else:
                    tmp_name = "__acc_obj__"
                    saved_acc = st.env.get(tmp_name)
                    st.env[tmp_name] = cur
                    try:
                        cur = it.eval(ast.Subscript(value=ast.Name(id=tmp_name, ctx=ast.Load()), slice=ast.Constant(nm.v), ctx=ast.Load()), st)
                    finally:
                        if saved_acc is None:
                            st.env.pop(tmp_name, None)
                        else:
                            st.env[tmp_name] = saved_acc
                got.append(cur)
            return got[0] if len(got) == 1 else K(tuple(got))
        if fname == "getattr" and len(args) == 2 and not kwargs and isinstance(args[1], K) and isinstance(args[1].v, str) and args[1].v.isidentifier() \
                and isinstance(call.func, ast.Name) and "getattr" not in st.env:
            # getattr(obj, "name") with a constant name is obj.name
            saved_g = st.env.get("__ga_obj__")
            st.env["__ga_obj__"] = args[0]
            try:
                v_g = it.eval(ast.Attribute(value=ast.Name(id="__ga_obj__", ctx=ast.Load()), attr=args[1].v, ctx=ast.Load()), st)
            finally:
                if saved_g is None:
                    st.env.pop("__ga_obj__", None)
                else:
                    st.env["__ga_obj__"] = saved_g
            if not isinstance(v_g, U):
                return v_g
        if fname in ("functools.update_wrapper", "update_wrapper") and len(args) >= 2:
            return args[0]  # copies metadata onto the wrapper and returns it
        if fname in ("functools.lru_cache", "lru_cache", "functools.cache", "cache") and self.heap and not (len(args) == 1 and isinstance(args[0], R) and args[0].kind == "localfunc"):
            return R("memo_decorator")  # functools.lru_cache(maxsize=...) - applied to a function below
        if fname in ("functools.lru_cache", "lru_cache", "functools.cache", "cache") and self.heap and len(args) == 1 and isinstance(args[0], R) and args[0].kind == "localfunc":
            return args[0].replace(memo=st.alloc("dict", {}))
        if isinstance(fval, R) and fval.kind == "memo_decorator" and not isinstance(call.func, (ast.Name, ast.Attribute)) and len(args) == 1 \
                and isinstance(args[0], R) and args[0].kind == "localfunc":
            return args[0].replace(memo=st.alloc("dict", {}))  # functools.lru_cache(...)(f): f with a table of its own
        if isinstance(fval, R) and fval.kind == "memo_decorator" and not isinstance(call.func, (ast.Name, ast.Attribute)) and len(args) == 1 \
                and (isinstance(args[0], R) and args[0].kind in ("boundmethod", "rawfunc") or isinstance(args[0], S) and args[0].name.startswith("func:")):
            return R("memoized", of=args[0], memo=st.alloc("dict", {}))  # ... a bound method / function behind a table of its own
        if fname == "next" and 1 <= len(args) <= 2 and not kwargs and isinstance(call.args[0], ast.Call) and isinstance(args[0], K) and isinstance(args[0].v, tuple):
            # next(<a generator freshly made by this very call>, default): its first item
            if args[0].v:
                x0 = args[0].v[0]
                return x0 if isinstance(x0, V) else K(x0)
            if len(args) == 2:
                return args[1]
            st.pending = st.pending or "StopIteration"
            return U("StopIteration")
        if isinstance(fval, Ref) and fval.kind == "set" and meth in ("isdisjoint", "issubset", "issuperset") and len(args) == 1 and isinstance(st.deref(fval), list):
            other_s = it.iterate(args[0], st)
            if other_s is not None:
                mine = [st.freeze(x) for x in st.deref(fval)]
                theirs = [st.freeze(o_) for o_ in other_s]
                if meth == "isdisjoint":
                    return K(not any(x in mine for x in theirs))
                if meth == "issubset":
                    return K(all(x in theirs for x in mine))
                return K(all(x in mine for x in theirs))
        if isinstance(fval, K) and isinstance(fval.v, frozenset) and meth == "isdisjoint" and len(args) == 1:
            other = it.iterate(args[0], st)
            if other is not None:
                return K(not any(x in fval.v for x in (st.freeze(o_) for o_ in other)))
        if fname == "vars" and len(args) == 1 and not kwargs and isinstance(call.func, ast.Name) and call.args:
            return it.eval(ast.Attribute(value=call.args[0], attr="__dict__", ctx=ast.Load()), st)  # vars(x) is x.__dict__
        if fname in ("cast", "typing.cast") and len(args) == 2 and not kwargs:
            return args[1]  # typing.cast is the identity on its second argument
        if fname == "object" and not args and not kwargs and isinstance(call.func, ast.Name):
            return R("sentinel", site=K(id(call)))  # a fresh object used for its identity (`_MISSING = object()`)
        if fname == "dict" and not args and kwargs and "**" not in kwargs and self.heap:
            return st.alloc("dict", {K(k_): v_ for k_, v_ in kwargs.items()})  # dict(a=1, b=2)
        if fname in ("itertools.repeat", "repeat") and len(args) == 2 and not kwargs and isinstance(args[1], K) and isinstance(args[1].v, int):
            return K(tuple([args[0]] * max(args[1].v, 0)))
        if fname in ("operator.methodcaller", "methodcaller") and args and isinstance(args[0], K) and isinstance(args[0].v, str):
            return R("accessor", what=K("method"), names=K((args[0],)), margs=K(tuple(args[1:])), mkwargs=K(tuple(sorted(kwargs.items()))))
        if isinstance(fval, R) and fval.kind == "accessor" and fval.fields["what"] == K("method") and not isinstance(call.func, ast.Attribute) and len(args) == 1 and not kwargs:
            # operator.methodcaller(name, *a, **kw)(obj) is obj.name(*a, **kw)
            margs = list(fval.fields["margs"].v)
            mkw = dict(fval.fields["mkwargs"].v)
            names_m = ["__mc_obj__"] + [f"__mc{i}" for i in range(len(margs))] + [f"__mck_{k_}" for k_ in mkw]
            saved_m = {n_: st.env.get(n_) for n_ in names_m}
            st.env["__mc_obj__"] = args[0]
            for i, a_ in enumerate(margs):
                st.env[f"__mc{i}"] = a_
            for k_, v_ in mkw.items():
                st.env[f"__mck_{k_}"] = v_
            try:
                fake_m = ast.Call(func=ast.Attribute(value=ast.Name(id="__mc_obj__", ctx=ast.Load()), attr=fval.fields["names"].v[0].v, ctx=ast.Load()),
                                  args=[ast.Name(id=f"__mc{i}", ctx=ast.Load()) for i in range(len(margs))],
                                  keywords=[ast.keyword(arg=k_, value=ast.Name(id=f"__mck_{k_}", ctx=ast.Load())) for k_ in mkw])
                return it.eval(fake_m, st)
            finally:
                for n_, v_ in saved_m.items():
                    if v_ is None:
                        st.env.pop(n_, None)
                    else:
                        st.env[n_] = v_
        if fname in ("dataclasses.replace", "replace") and len(args) == 1 and isinstance(args[0], Ref) and args[0].kind == "obj" \
                and (fname != "replace" or self.cur_fi.module.imports.get("replace") == "dataclasses.replace"):
            # dataclasses.replace(obj, **changes): a new instance of the same class with the fields of obj, some replaced
            src_dc = dict(st.deref(args[0]))
            src_dc.update(kwargs)
            return st.alloc("obj", src_dc)
        if fname in ("itertools.groupby", "groupby") and len(args) in (1, 2) and set(kwargs) <= {"key"} and (fname != "groupby" or self.cur_fi.module.imports.get("groupby") == "itertools.groupby"):
            # runs of ADJACENT elements with equal keys (CPython: a new group starts whenever the key changes - the input is not sorted)
            seq_g = it.iterate(args[0], st)
            key_e = call.args[1] if len(call.args) == 2 else next((k_.value for k_ in call.keywords if k_.arg == "key"), None)
            if seq_g is None:
                return None
            groups: List[Tuple[V, List[V]]] = []
            for x in seq_g:
                kx = x if key_e is None or (isinstance(key_e, ast.Constant) and key_e.value is None) else self.apply_callable(key_e, [x], st)
                if kx is None or isinstance(kx, U) or st.pending is not None:
                    return None
                kx = st.freeze(kx)
                if groups and groups[-1][0] == kx:
                    groups[-1][1].append(x)
                else:
                    groups.append((kx, [x]))
            return K(tuple(K((k_, K(tuple(g_)))) for k_, g_ in groups))
        if fname in ("itertools.islice", "islice") and 2 <= len(args) <= 4 and not kwargs and all(isinstance(a, K) and (a.v is None or isinstance(a.v, int)) for a in args[1:]):
            seq_i = it.iterate(args[0], st)
            if seq_i is None:
                return None
            return K(tuple(seq_i[slice(*[a.v for a in args[1:]])]))
        if fname in ("itertools.accumulate", "accumulate") and 1 <= len(call.args) <= 2 and len(args) == len(call.args) and not kwargs:
            seq_a = it.iterate(args[0], st)
            if seq_a is None:
                return None
            out_a: List[V] = []
            for x in seq_a:
                if not out_a:
                    out_a.append(x)
                    continue
                if len(call.args) == 2:
                    nxt = self.apply_callable(call.args[1], [out_a[-1], x], st)
                else:
                    nxt = it.eval(ast.BinOp(left=ast.Name(id="__acc_l", ctx=ast.Load()), op=ast.Add(), right=ast.Name(id="__acc_r", ctx=ast.Load())),
                                  _with_env(st, {"__acc_l": out_a[-1], "__acc_r": x}))
                if nxt is None or isinstance(nxt, U):
                    return None
                out_a.append(nxt)
            return K(tuple(out_a))
        if fname in ("functools.reduce", "reduce") and 2 <= len(call.args) <= 3 and len(args) == len(call.args) and not kwargs:
            seq = it.iterate(args[1], st)
            if seq is None:
                return None
            if not seq and len(args) < 3:
                st.pending = st.pending or "TypeError"
                return U("reduce of an empty sequence")
            acc_r: Optional[V] = args[2] if len(args) > 2 else seq[0]
            for x in (seq if len(args) > 2 else seq[1:]):
                acc_r = self.apply_callable(call.args[0], [acc_r, x], st)  # type: ignore[list-item]
                if acc_r is None or st.pending is not None:
                    return acc_r
            return acc_r
        if fname in ("all", "any") and len(args) == 1:
            seq = it.iterate(args[0], st)
            if seq is not None and all(isinstance(x, K) for x in seq):
                return K((all if fname == "all" else any)(bool(x.v) for x in seq))
        if meth == "join" and isinstance(fval, K) and isinstance(fval.v, str) and len(args) == 1:
            seq = it.iterate(args[0], st)
            if seq is not None and all(isinstance(x, K) and isinstance(x.v, str) for x in seq):
                return K(fval.v.join(x.v for x in seq))
            return None
        if fname in ("min", "max") and len(args) == 1 and any(k.arg == "key" for k in call.keywords):
            seq = it.iterate(args[0], st)
            lam = [k.value for k in call.keywords if k.arg == "key"][0]
            if seq is None or not seq:
                return None
            keyed = []
            for x in seq:
                if isinstance(lam, ast.Lambda) and len(lam.args.args) == 1:
                    sub = st.fork()
                    sub.heap, sub._next, sub.effects = st.heap, st._next, st.effects
                    sub.env[lam.args.args[0].arg] = x
                    kval: Optional[V] = it.eval(lam.body, sub)
                else:
                    kval = self.apply_callable(lam, [x], st)
                if kval is None:
                    return None
                kk = self._sort_key(kval)
                if kk is None or (kk[0] == 1 and any(p[0] == 9 for p in kk[1])):
                    return None
                keyed.append((kk, x))
            pick = min if fname == "min" else max
            best = pick(range(len(keyed)), key=lambda i: keyed[i][0])
            return keyed[best][1]
        if fname == "sorted" and len(args) == 1:
            seq = it.iterate(args[0], st)
            if seq is None:
                return None
            keyf = [k.value for k in call.keywords if k.arg == "key"]
            keys: List[Any] = []
            for x in seq:
                kv: V = x
                if keyf:
                    lam = keyf[0]
                    if isinstance(lam, ast.Lambda) and len(lam.args.args) == 1:
                        sub = st.fork()
                        sub.heap, sub._next, sub.effects = st.heap, st._next, st.effects
                        sub.env[lam.args.args[0].arg] = x
                        kv = it.eval(lam.body, sub)
                    else:
                        kv2 = self.apply_callable(lam, [x], st)
                        if kv2 is None:
                            return None
                        kv = kv2
                kk = self._sort_key(kv)
                if kk is None:
                    return None
                keys.append(kk)
            plain = [tuple(p for p in k[1] if p[0] != 9) if k[0] == 1 else k for k in keys]
            if any(k[0] == 1 and any(p[0] == 9 for p in k[1]) for k in keys) and len(set(map(repr, plain))) != len(plain):
                return None  # a tie would be decided by comparing unsortable objects (TypeError at runtime)
            rev = [k.value for k in call.keywords if k.arg == "reverse"]
            reverse = False
            if rev:
                rv = it.eval(rev[0], st)
                if not (isinstance(rv, K) and isinstance(rv.v, bool)):
                    return None
                reverse = rv.v
            # sorted(..., reverse=True) keeps the original order of equal elements (it is not the reversed ascending sort)
            order = sorted(range(len(seq)), key=lambda i: plain[i], reverse=reverse)
            res = [seq[i] for i in order]
            return st.alloc("list", res) if self.heap else R("list", items=tuple(res))
        if meth == "split" and self.heap and isinstance(fval, K) and isinstance(fval.v, str) and all(isinstance(a, K) for a in args):
            try:
                return st.alloc("list", [K(x) for x in fval.v.split(*[a.v for a in args])])
            except Exception:
                return None
        # ---- NamedTuple classes of the package (always modelled: they are plain data) -------------------
        if isinstance(call.func, (ast.Name, ast.Attribute)) and not isinstance(fval, (R, Ref, K)):
            dn = dotted(call.func) or ""
            ci_nt = self.repo.resolve_class(self.cur_fi.module, dn) if dn else None
            if ci_nt is None and isinstance(fval, S) and fval.name.startswith("class:") and isinstance(call.func, ast.Name):
                mn_c, _, cn_c = fval.name[len("class:"):].rpartition(".")
                ci_nt = self.repo.cls(mn_c, cn_c, required=False)  # cls(...) inside a classmethod
            if ci_nt is not None and self._nt_fields(ci_nt) is not None:
                names, defaults = self._nt_fields(ci_nt)  # type: ignore[misc]
                vals: Dict[str, V] = {}
                for n_, v in zip(names, args):
                    vals[n_] = v
                for k_, v in kwargs.items():
                    vals[k_] = v
                for n_ in names:
                    if n_ not in vals:
                        if n_ in defaults:
                            saved_fi = self.cur_fi
                            self.cur_fi = FunctionInfo(ci_nt.module, ci_nt.name + ".<class body>", ast.parse("def _m(): pass").body[0], ci_nt)
                            try:
                                vals[n_] = self.interp.eval(defaults[n_], st)
                            finally:
                                self.cur_fi = saved_fi
                        else:
                            st.pending = st.pending or "TypeError"
                            return U("missing NamedTuple field")
                return R("nt", __cls__=K(ci_nt.fq), __fields__=K(tuple(names)), **{n_: vals[n_] for n_ in names})
        if isinstance(fval, R) and fval.kind == "nt" and meth is not None:
            names = list(fval.fields["__fields__"].v)
            if meth == "_replace" and not args:
                return fval.replace(**kwargs)
            if meth == "_asdict" and not args:
                items = tuple((K(n_), fval.fields[n_]) for n_ in names)
                return st.alloc("dict", dict(items)) if self.heap else R("dict", items=items)
            ci_m = self.class_of_nt(fval)
            m_nt = self.repo.method(ci_m, meth) if ci_m is not None else None
            if m_nt is not None:
                return self.inline_call(m_nt, call, fval, args, kwargs, st)
        if isinstance(call.func, ast.Attribute) and meth is not None and not isinstance(fval, (R, Ref, K)):
            # Class.classmethod(...) on a NamedTuple class, e.g. _Settings.from_config(cfg)
            dn2 = dotted(call.func.value) or ""
            ci_c = self.repo.resolve_class(self.cur_fi.module, dn2) if dn2 else None
            if ci_c is not None and self._nt_fields(ci_c) is not None:
                m_c = self.repo.method(ci_c, meth)
                if m_c is not None:
                    return self.inline_call(m_c, call, S("class:" + ci_c.fq), args, kwargs, st)
        # private helper classes of the package (class _Builder: ...) are plain data + methods: always modelled
        priv_cls = None
        if isinstance(call.func, ast.Name) and call.func.id.startswith("_") and not isinstance(fval, (R, Ref)) and self.heap:
            priv_cls = self.repo.resolve_class(self.cur_fi.module, call.func.id)
            if priv_cls is not None and (self._nt_fields(priv_cls) is not None or priv_cls.bases and any(b.split(".")[-1] not in ("object",) for b in priv_cls.bases)):
                priv_cls = None  # only base-less private classes
        if self.heap and isinstance(call.func, ast.Name) and isinstance(fval, S) and fval.name.startswith("class:") and call.func.id in st.env:
            # cls(...) inside a classmethod of a private base-less helper class (or a local alias of the class)
            mn_p, _, cn_p = fval.name[len("class:"):].rpartition(".")
            ci_p = self.repo.cls(mn_p, cn_p, required=False)
            if ci_p is not None and cn_p.split(".")[-1].startswith("_") and self._nt_fields(ci_p) is None \
                    and not any(b.split(".")[-1] not in ("object",) for b in ci_p.bases):
                init_p = self.repo.method(ci_p, "__init__")
                if init_p is None:
                    obj_dc0 = self._new_dataclass(ci_p, call, args, kwargs, st)
                    if obj_dc0 is not None:
                        return obj_dc0
                obj_p = st.alloc("obj", {"__class__": K(ci_p.fq)})
                if init_p is not None:
                    self.inline_call(init_p, call, obj_p, args, kwargs, st)
                return obj_p
        if (self.construct_instances or priv_cls is not None) and isinstance(call.func, ast.Name) and not isinstance(fval, (R, Ref)):
            ci_new = self.repo.resolve_class(self.cur_fi.module, call.func.id)
            if ci_new is not None and self.repo.method(ci_new, "__init__") is None:
                obj_dc = self._new_dataclass(ci_new, call, args, kwargs, st)
                if obj_dc is not None:
                    return obj_dc
                return st.alloc("obj", {"__class__": K(ci_new.fq)})  # no __init__ in the package: a bare instance
        if self.construct_instances and isinstance(call.func, ast.Name) and call.func.id == "cls" and isinstance(st.env.get("cls"), S) \
                and st.env["cls"].name.split(":", 1)[0] in ("class", "func", "mod"):
            # `cls(...)` inside a classmethod that was called on a class of the package: an instance of that class
            cfq_c = st.env["cls"].name.split(":", 1)[1]
            mn_c, _, cn_c = cfq_c.rpartition(".")
            ci_c = self.repo.cls(mn_c, cn_c, required=False)
            if ci_c is not None:
                init_c = self.repo.method(ci_c, "__init__")
                if init_c is None:
                    obj_dc2 = self._new_dataclass(ci_c, call, args, kwargs, st)
                    if obj_dc2 is not None:
                        return obj_dc2
                obj_c = st.alloc("obj", {"__class__": K(ci_c.fq)})
                if init_c is not None:
                    self.inline_call(init_c, call, obj_c, args, kwargs, st)
                return obj_c
        if (self.construct_instances or priv_cls is not None) and isinstance(call.func, (ast.Name, ast.Attribute)):
            callee0 = self.resolve(call, fval)
            via_cls = isinstance(call.func, ast.Name) and call.func.id == "cls" and isinstance(st.env.get("cls"), S) and callee0 is not None and callee0.cls is not None \
                and st.env["cls"].name in ("class:" + callee0.cls.fq, "func:" + callee0.cls.fq, "mod:" + callee0.cls.fq)  # `cls(...)` inside a classmethod called on the class
            if callee0 is not None and callee0.cls is not None and callee0.qualname.endswith(".__init__") and not isinstance(fval, (R, Ref)) \
                    and dotted(call.func) is not None and (dotted(call.func).split(".")[-1] == callee0.cls.name.split(".")[-1] or via_cls):
                fval = None if via_cls else fval
                obj = st.alloc("obj", {"__class__": K(callee0.cls.fq)})
                self.inline_call(callee0, call, obj, args, kwargs, st)
                return obj
        if fname == "issubclass" and len(args) == 2 and isinstance(args[0], S) and args[0].name.startswith("excclass:"):
            from mtsa.absint import exc_is
            targets = list(args[1].v) if isinstance(args[1], K) and isinstance(args[1].v, tuple) else [args[1]]
            names_t = [t.name.split(":")[-1].split(".")[-1] for t in targets if isinstance(t, S)]
            if len(names_t) == len(targets):
                return K(any(exc_is(args[0].name[len("excclass:"):], n_, self.interp.exc_parents) for n_ in names_t))
        if fname == "isinstance" and len(args) == 2 and isinstance(args[0], Ref) and args[0].kind == "obj" and isinstance(call.args[1], (ast.Name, ast.Attribute)):
            # an object of the scenario's heap against a class of the package: decided by the class hierarchy of the source
            ci_o = self._class_of_ref(args[0], st)
            ci_t = self.repo.resolve_class(self.cur_fi.module, dotted(call.args[1]) or "")
            if ci_o is not None and ci_t is not None:
                return K(any(c.fq == ci_t.fq for c in self.repo.mro(ci_o)))
        if fname == "isinstance" and len(args) == 2 and ((isinstance(args[0], S) and args[0].name.startswith("exc:")) or (isinstance(args[0], R) and args[0].kind == "exc" and isinstance(args[0].fields.get("cls"), K))):
            # an exception object in flight (bound by a handler, or handed to __exit__): decided by the class hierarchy
            from mtsa.absint import exc_is
            ename = args[0].name[len("exc:"):] if isinstance(args[0], S) else args[0].fields["cls"].v
            targets = list(args[1].v) if isinstance(args[1], K) and isinstance(args[1].v, tuple) else [args[1]]
            names_t = [t.name.split(":")[-1].split(".")[-1] for t in targets if isinstance(t, S)]
            if len(names_t) == len(targets):
                return K(any(exc_is(ename, n_, self.interp.exc_parents) for n_ in names_t))
        if meth is not None and isinstance(fval, Ref) and fval.kind == "obj" and isinstance(st.deref(fval), dict) and meth in st.deref(fval):
            held_a = st.deref(fval)[meth]  # an attribute that holds a callable (a closure, a bound method, a function)
            v_a = self.call_value(held_a, call, args, kwargs, st)
            if v_a is not None:
                return v_a
        if meth is not None and isinstance(fval, Ref) and fval.kind == "obj":
            cfq = st.deref(fval).get("__class__")
            if isinstance(cfq, K):
                mn, _, cn = cfq.v.rpartition(".")
                ci0 = self.repo.cls(mn, cn, required=False)
                m0 = self.repo.method(ci0, meth) if ci0 is not None else None
                if m0 is not None and (cn.startswith("_") or (self.dispatch_instances and m0.fq in self.inline)):
                    saved0 = self.self_class
                    self.self_class = ci0
                    try:
                        return self.inline_call(m0, call, fval, args, kwargs, st)
                    finally:
                        self.self_class = saved0
        if self.dispatch_instances and meth is not None and isinstance(fval, R) and fval.kind == "inst":
            ci = self.class_of(fval)
            if ci is not None:
                m = self.repo.method(ci, meth)
                if m is not None:
                    saved = self.self_class
                    self.self_class = ci
                    try:
                        return self.inline_call(m, call, fval, args, kwargs, st)
                    finally:
                        self.self_class = saved
        return None

    def _nt_fields(self, ci: Any) -> Optional[Tuple[List[str], Dict[str, ast.AST]]]:
        """(field names in order, defaults) when ci is a typing.NamedTuple class, else None"""
        if not any(b.split(".")[-1] == "NamedTuple" for b in ci.bases):
            return None
        names: List[str] = []
        defaults: Dict[str, ast.AST] = {}
        for x in ci.node.body:
            if isinstance(x, ast.AnnAssign) and isinstance(x.target, ast.Name):
                names.append(x.target.id)
                if x.value is not None:
                    defaults[x.target.id] = x.value
        return names, defaults

    def class_of_nt(self, v: V) -> Any:
        if isinstance(v, R) and v.kind == "nt":
            m, _, c = v.fields["__cls__"].v.rpartition(".")
            return self.repo.cls(m, c, required=False)
        return None

    def _sort_key(self, v: V) -> Any:
        if isinstance(v, K) and isinstance(v.v, (str, int, float)):
            return (0, v.v)
        if isinstance(v, K) and isinstance(v.v, tuple):
            parts = []
            for x in v.v:
                p = self._sort_key(x)
                if p is None:
                    # tuples compare element-wise: a later element matters only on ties of the earlier ones
                    parts.append((9, "<unsortable>"))
                    break
                parts.append(p)
            return (1, tuple(parts)) if parts and parts[0][0] != 9 else None
        return None

    def resolve(self, call: ast.Call, fval: Optional[V] = None) -> Optional[FunctionInfo]:
        f = call.func
        if isinstance(f, ast.Name) and isinstance(fval, S) and (fval.name.startswith("func:") or (fval.name.startswith("mod:monkeytype.") and f.id not in self.cur_fi.module.imports)):
            # a call through a local variable / parameter that holds a function of the package
            fq = fval.name.split(":", 1)[1]
            for modname in sorted(self.repo.modules, key=len, reverse=True):
                if fq.startswith(modname + "."):
                    return self.repo.modules[modname].functions.get(fq[len(modname) + 1:])
            return None
        if self.self_class is not None and isinstance(f, ast.Attribute) and isinstance(f.value, ast.Name) and f.value.id == "self":
            m = self.repo.method(self.self_class, f.attr)
            if m is not None:
                return m
        return self.repo.resolve_callee(self.cur_fi, call)

    MEMO_DECORATORS = ("lru_cache", "functools.lru_cache", "cache", "functools.cache")

    def inline_call(self, callee: FunctionInfo, call: ast.Call, fval: Optional[V], args: List[V], kwargs: Dict[str, V], st: State) -> V:
        """functools.lru_cache / functools.cache on the callee are honoured: one table per function and process, keyed by
        the arguments, filled only by calls that returned (as in CPython) - so histories see a remembered answer."""
        decos = [d.split("(")[0] for d in callee.decorators()]
        pkg_decos = [self._package_decorator(callee, d) for d in getattr(callee.node, "decorator_list", [])]
        if self.heap and pkg_decos and all(p is not None for p in pkg_decos):
            # decorated with functions of the package itself (`@_cached_per_file`): the decorator is interpreted once per
            # process with the undecorated function as its argument; what it returns is what callers call
            dkey = f"__global__:__deco__:{callee.fq}"
            if dkey not in st.env:
                obj: V = R("rawfunc", fq=K(callee.fq))
                for dfi, dnode in reversed(list(zip(pkg_decos, callee.node.decorator_list))):  # type: ignore[attr-defined]
                    fake_d = ast.Call(func=ast.Name(id=dfi.qualname, ctx=ast.Load()), args=[], keywords=[])  # type: ignore[union-attr]
                    if isinstance(dnode, ast.Call):
                        # a decorator factory: `@contained("message")` - the factory is called with the written arguments (in
                        # the module's own context), what it returns is applied to the function
                        saved_fi = self.cur_fi
                        self.cur_fi = FunctionInfo(callee.module, "<module>", ast.parse("def _m(): pass").body[0])
                        try:
                            f_args = [self.interp.eval(a_, st) for a_ in dnode.args]
                            f_kw = {k_.arg: self.interp.eval(k_.value, st) for k_ in dnode.keywords if k_.arg}
                        finally:
                            self.cur_fi = saved_fi
                        deco_v = self._inline_call(dfi, fake_d, None, f_args, f_kw, st)  # type: ignore[arg-type]
                        applied = self.call_value(deco_v, fake_d, [obj], {}, st)
                        if applied is None:
                            raise AnalysisError(f"{callee.fq}: what the decorator factory {dfi.qualname} returns cannot be applied")  # type: ignore[union-attr]
                        obj = applied
                    else:
                        obj = self._inline_call(dfi, fake_d, None, [obj], {}, st)  # type: ignore[arg-type]
                st.env[dkey] = obj
            wrapped = st.env[dkey]
            is_meth = callee.cls is not None and "staticmethod" not in callee.decorators() and callee.positional_params()[:1] in (["self"], ["cls"])
            full_args = ([fval if fval is not None else S("self")] if is_meth else []) + list(args)
            if isinstance(wrapped, R) and wrapped.kind == "localfunc":
                return self.interp._call_local(wrapped, full_args, dict(kwargs), st)
            if isinstance(wrapped, R) and wrapped.kind == "rawfunc" and wrapped.fields["fq"] == K(callee.fq):
                return self._inline_call(callee, call, fval, args, kwargs, st)
            raise AnalysisError(f"{callee.fq}: its decorator returns something the interpreter cannot call ({wrapped!r:.80})")
        if self.heap and any(d in self.MEMO_DECORATORS for d in decos):
            tkey = f"__global__:__lru__:{callee.fq}"
            if tkey not in st.env:
                st.env[tkey] = st.alloc("dict", {})
            table = st.dict_of(st.env[tkey])
            # lru_cache looks its keys up by == and hash: 1, 1.0 and True are ONE key, and so are tuples of them
            k = K((K(tuple(_py_eq_key(st.freeze(a)) for a in args)), K(tuple(sorted((n, repr(_py_eq_key(st.freeze(v)))) for n, v in kwargs.items())))))
            if k in table:
                st.effects.append(("lru-hit", callee.fq))
                return table[k]
            before = st.pending
            v = self._inline_call(callee, call, fval, args, kwargs, st)
            if st.pending is None and before is None and not isinstance(v, U):
                table[k] = v
            return v
        return self._inline_call(callee, call, fval, args, kwargs, st)

    CM_DECORATORS = ("contextmanager", "contextlib.contextmanager")

    def _package_decorator(self, callee: FunctionInfo, d: ast.AST) -> Optional[FunctionInfo]:
        """the module-level function of the package a bare decorator name denotes, else None"""
        if isinstance(d, ast.Call):
            d = d.func
        if not isinstance(d, ast.Name):
            return None
        mod = callee.module
        if d.id in mod.functions and mod.functions[d.id].cls is None:
            return mod.functions[d.id]
        tgt = mod.imports.get(d.id)
        if tgt and tgt.startswith("monkeytype."):
            m2, _, n2 = tgt.rpartition(".")
            mod2 = self.repo.modules.get(m2)
            if mod2 is not None and n2 in mod2.functions:
                return mod2.functions[n2]
        return None

    def _is_generator(self, fi: FunctionInfo) -> bool:
        return any(isinstance(x, (ast.Yield, ast.YieldFrom)) for x in walk_no_nested(fi.node))

    def on_with(self, cm: R, target: Optional[ast.AST], body: List[ast.stmt], st: State) -> List[State]:
        """`with <package @contextmanager>(...) [as target]: body` - the generator is interpreted; at its yield the body of
        the with statement runs in the caller's state; an exception of the body is raised at the yield, so the
        generator's own try/except/finally decide what happens to it."""
        fq = cm.fields["callee"].v
        callee = next((f for f in self.repo.all_functions() if f.fq == fq), None)
        if callee is None:
            raise AnalysisError(f"context manager {fq} not found")
        it = self.interp
        outer: Dict[str, Any] = {"st": st, "term": None, "ran": 0}
        saved_handler = getattr(it, "yield_handler", None)

        def handler(v: V, gs: State) -> None:
            it.yield_handler = saved_handler
            try:
                cs = outer["st"]
                outer["ran"] += 1
                if target is not None:
                    it._assign(target, v, cs)
                outs = it.run(body, cs)
                if len(outs) != 1:
                    raise AnalysisError(f"the body of `with {callee.qualname}(...)` has {len(outs)} outcomes; only single-outcome bodies are modelled")
                o = outs[0]
                outer["st"] = o
                if o.term is not None and o.term[0] == "raise":
                    gs.pending = str(o.term[1])  # raised at the yield
                    o.term = None
                elif o.term is not None:
                    outer["term"] = o.term  # return / break / continue inside the with body: re-applied after cleanup
                    o.term = None
            finally:
                it.yield_handler = handler

        it.yield_handler = handler
        try:
            a_v = list(cm.fields["args"].v)
            kw_v = dict(cm.fields["kwargs"].v)
            self_v = cm.fields["self"] if cm.fields["self"] != K("<none>") else None
            fake = ast.Call(func=ast.Name(id=callee.qualname.split(".")[-1], ctx=ast.Load()), args=[], keywords=[])
            # run the generator body like an inlined call, sharing heap and effects with the caller
            gen_result = self._inline_call(callee, fake, self_v, a_v, kw_v, outer["st"], generator_ok=True)
        finally:
            it.yield_handler = saved_handler
        cs = outer["st"]
        if outer["ran"] != 1 and cs.pending is None:
            raise AnalysisError(f"context manager {callee.qualname} yielded {outer['ran']} times")
        if cs.pending is not None:
            return [cs]  # the exception left the context manager
        if outer["term"] is not None:
            cs.term = outer["term"]
        return [cs]

    def on_with_object(self, cm: Ref, target: Optional[ast.AST], body: List[ast.stmt], st: State) -> Optional[List[State]]:
        """`with <instance of a package class that defines __enter__/__exit__> [as target]: body` - the protocol is
        interpreted: __enter__(), the body, then __exit__(type, value, tb) with the exception class the body raised (or
        three Nones); an exception raised by __exit__ replaces the body's, a true result suppresses it."""
        ci = self._class_of_ref(cm, st)
        if ci is None:
            return None
        m_enter, m_exit = self.repo.method(ci, "__enter__"), self.repo.method(ci, "__exit__")
        if m_enter is None or m_exit is None:
            return None
        it = self.interp
        fake = ast.Call(func=ast.Attribute(value=ast.Name(id="__cm__", ctx=ast.Load()), attr="__enter__", ctx=ast.Load()), args=[], keywords=[])
        saved_c = self.self_class
        self.self_class = ci
        try:
            entered = self.inline_call(m_enter, fake, cm, [], {}, st)
        finally:
            self.self_class = saved_c
        if st.pending is not None:
            return [st]
        if target is not None:
            it._assign(target, entered, st)
        outs = it.run(body, st)
        res: List[State] = []
        for o in outs:
            raised = o.term is not None and o.term[0] == "raise"
            term = o.term
            o.term = None
            if raised:
                ex_args: List[V] = [S("excclass:" + str(term[1])), S("exc:" + str(term[1])), S("traceback")]
            else:
                ex_args = [K(None), K(None), K(None)]
            self.self_class = ci
            try:
                r_exit = self.inline_call(m_exit, fake, cm, ex_args, {}, o)
            finally:
                self.self_class = saved_c
            if o.pending is not None:
                o.term = ("raise", o.pending, "")
                o.pending = None
            elif raised and it._value_truth(fake, r_exit, o) is True:
                o.term = None  # suppressed
            elif raised and isinstance(r_exit, U) and not isinstance(r_exit, K):
                raise AnalysisError(f"{ci.fq}.__exit__: whether the exception is suppressed is not decided")
            else:
                o.term = term
            res.append(o)
        return res

    def _class_of_ref(self, obj: Ref, st: State) -> Any:
        cfq = st.deref(obj).get("__class__") if isinstance(st.deref(obj), dict) else None
        if isinstance(cfq, K):
            mn, _, cn = cfq.v.rpartition(".")
            return self.repo.cls(mn, cn, required=False)
        return None

    def call_value(self, fv: V, call: ast.Call, args: List[V], kwargs: Dict[str, V], st: State) -> Optional[V]:
        """call a first-class callable value: a closure, a bound method of a heap object, a function token, an accessor"""
        if isinstance(fv, R) and fv.kind == "localfunc":
            return self.interp._call_local(fv, list(args), dict(kwargs), st)
        if isinstance(fv, R) and fv.kind == "memoized" and isinstance(fv.fields.get("memo"), Ref):
            table = st.dict_of(fv.fields["memo"])
            mk = K((K(tuple(st.freeze(a) for a in args)), K(tuple(sorted((n, repr(st.freeze(v))) for n, v in kwargs.items())))))
            if mk in table:
                st.effects.append(("lru-hit", "value"))
                return table[mk]
            before = st.pending
            v_m = self.call_value(fv.fields["of"], call, args, kwargs, st)
            if v_m is not None and st.pending is None and before is None and not isinstance(v_m, U):
                table[mk] = v_m
            return v_m
        if isinstance(fv, R) and fv.kind == "rawfunc":
            raw = next((f for f in self.repo.all_functions() if f.fq == fv.fields["fq"].v), None)
            if raw is None:
                return None
            return self._inline_call(raw, call, None, list(args), dict(kwargs), st)
        if isinstance(fv, R) and fv.kind == "boundmethod" and isinstance(fv.fields.get("self"), S) and fv.fields["self"].name == "self" and isinstance(fv.fields.get("cls"), K):
            # a bound method of the scenario's symbolic receiver
            mn_b, _, cn_b = fv.fields["cls"].v.rpartition(".")
            ci_b = self.repo.cls(mn_b, cn_b, required=False)
            m_b = self.repo.method(ci_b, fv.fields["name"].v) if ci_b is not None else None
            if m_b is None:
                return None
            # the call is presented to the scenario's hooks as `self.<name>(...)` (what it is), so that rules observing the
            # receiver's method calls see it
            fake_b = ast.Call(func=ast.Attribute(value=ast.Name(id="self", ctx=ast.Load()), attr=fv.fields["name"].v, ctx=ast.Load()), args=list(call.args), keywords=list(call.keywords))
            ast.copy_location(fake_b, call)
            ast.fix_missing_locations(fake_b)
            if self.call_hook is not None:
                hv = self.call_hook(fake_b, "self." + fv.fields["name"].v, fv.fields["self"], list(args), dict(kwargs), st)
                if hv is not None:
                    return hv
            saved_b = self.self_class
            self.self_class = ci_b
            try:
                return self.inline_call(m_b, fake_b, fv.fields["self"], list(args), dict(kwargs), st)
            finally:
                self.self_class = saved_b
        if isinstance(fv, R) and fv.kind == "boundmethod" and isinstance(fv.fields.get("self"), Ref):
            obj = fv.fields["self"]
            ci = self._class_of_ref(obj, st)
            m = self.repo.method(ci, fv.fields["name"].v) if ci is not None else None
            if m is None:
                return None
            saved = self.self_class
            self.self_class = ci
            try:
                return self.inline_call(m, call, obj, list(args), dict(kwargs), st)
            finally:
                self.self_class = saved
        if isinstance(fv, Ref) and fv.kind == "obj":
            # an instance of a class of the package that defines __call__ (a callable object: a closure turned into a class)
            ci_o = self._class_of_ref(fv, st)
            m_o = self.repo.method(ci_o, "__call__") if ci_o is not None else None
            if m_o is None:
                return None
            saved_o = self.self_class
            self.self_class = ci_o
            try:
                return self.inline_call(m_o, call, fv, list(args), dict(kwargs), st)
            finally:
                self.self_class = saved_o
        if isinstance(fv, S) and fv.name.startswith("func:"):
            fq = fv.name[5:]
            callee = next((f for f in self.repo.all_functions() if f.fq == fq), None)
            if callee is not None and (callee.fq in self.inline or callee.qualname in self.inline):
                if callee.cls is not None and args and "staticmethod" not in callee.decorators() and callee.positional_params()[:1] == ["self"]:
                    recv = args[0]
                    saved_sc = self.self_class
                    ci_r = self._class_of_ref(recv, st) if isinstance(recv, Ref) and recv.kind == "obj" else None
                    if ci_r is not None:
                        self.self_class = ci_r
                    try:
                        return self.inline_call(callee, call, recv, list(args[1:]), dict(kwargs), st)
                    finally:
                        self.self_class = saved_sc
                return self.inline_call(callee, call, None, list(args), dict(kwargs), st)
        if isinstance(fv, S) and fv.name.startswith(("builtin:", "mod:")) and not kwargs:
            # a builtin or library function held as a value (`attr_getter = getattr`): called as if written by name, so that
            # the scenario's hooks for that name answer
            dotted_name = fv.name.split(":", 1)[1]
            parts = dotted_name.split(".")
            fexpr: ast.expr = ast.Name(id=parts[0], ctx=ast.Load())
            for p_ in parts[1:]:
                fexpr = ast.Attribute(value=fexpr, attr=p_, ctx=ast.Load())
            if parts[0] in st.env:
                return None
            names = [f"__cv{i}" for i in range(len(args))]
            saved = {n_: st.env.get(n_) for n_ in names}
            for n_, a_ in zip(names, args):
                st.env[n_] = a_
            try:
                r_cv = self.interp.eval(ast.Call(func=fexpr, args=[ast.Name(id=n_, ctx=ast.Load()) for n_ in names], keywords=[]), st)
            finally:
                for n_, v_ in saved.items():
                    if v_ is None:
                        st.env.pop(n_, None)
                    else:
                        st.env[n_] = v_
            return None if isinstance(r_cv, U) and st.pending is None else r_cv
        return None

    def _inline_call(self, callee: FunctionInfo, call: ast.Call, fval: Optional[V], args: List[V], kwargs: Dict[str, V], st: State, generator_ok: bool = False) -> V:
        if self.depth >= self.max_depth:
            return U("inline depth")
        if not generator_ok and self.heap and any(d.split("(")[0] in self.CM_DECORATORS for d in callee.decorators()) and self._is_generator(callee):
            return R("ctxmgr", callee=K(callee.fq), self=fval if fval is not None else K("<none>"), args=K(tuple(args)), kwargs=K(tuple(sorted(kwargs.items()))))
        if not generator_ok and self.heap and self._is_generator(callee):
            # a generator function: interpreted eagerly, the values it yields become the sequence the caller iterates
            mark = len(st.effects)
            rounds = getattr(self.interp, "symbolic_rounds", 1)
            self.interp.symbolic_rounds = 2  # type: ignore[attr-defined]
            try:
                self._inline_call(callee, call, fval, args, kwargs, st, generator_ok=True)
            finally:
                self.interp.symbolic_rounds = rounds  # type: ignore[attr-defined]
            ys = [(e[2] if len(e) > 2 and isinstance(e[2], Ref) and e[2].kind == "obj" else e[1]) for e in st.effects[mark:] if e[0] == "yield"]
            if any(e[0] == "yield-from" for e in st.effects[mark:]):
                return U("generator with yield from")
            st.effects[mark:] = [e for e in st.effects[mark:] if e[0] != "yield"]
            return K(tuple(ys))
        a = callee.node.args  # type: ignore[attr-defined]
        params = [x.arg for x in a.posonlyargs + a.args]
        sub = State()
        sub.effects = st.effects  # shared: effects of the callee are effects of the caller
        sub.assume = st.assume
        sub.heap = st.heap
        sub._next = st._next
        for gk, gv in st.env.items():
            if gk.startswith("__global__:"):
                sub.env[gk] = gv
        sub.env["__frame__"] = new_frame_id()
        is_method = callee.cls is not None and params and params[0] in ("self", "cls")
        if is_method:
            sub.env[params[0]] = fval if fval is not None else S("self")
            params = params[1:]
        for p, v in zip(params, args):
            sub.env[p] = v
        if a.vararg is not None:
            sub.env[a.vararg.arg] = K(tuple(args[len(params):]))
        known = set(params) | {x.arg for x in a.kwonlyargs}
        for k, v in kwargs.items():
            if k in known or a.kwarg is None:
                sub.env[k] = v
        if a.kwarg is not None:
            sub.env[a.kwarg.arg] = R("dict", items=tuple((K(k), v) for k, v in kwargs.items() if k not in known))
        for p, d in callee.defaults().items():
            if p not in sub.env:
                if callee.cls is not None:
                    # a method's defaults were evaluated in the class body: names of class-level constants are visible there
                    saved_d = self.cur_fi
                    self.cur_fi = FunctionInfo(callee.module, callee.cls.name + ".<class body>", ast.parse("def _m(): pass").body[0], callee.cls)
                    try:
                        sub.env[p] = self.interp.eval(d, sub)
                    finally:
                        self.cur_fi = saved_d
                else:
                    sub.env[p] = self.interp.eval(d, sub)
        for p in params:
            if p not in sub.env:
                sub.env[p] = U("unbound " + p)
        saved = self.cur_fi
        self.cur_fi = callee
        self.depth += 1
        try:
            outs = self.interp.run(callee.node.body, sub)  # type: ignore[attr-defined]
        finally:
            self.depth -= 1
            self.cur_fi = saved
        for o in outs:
            for gk, gv in o.env.items():
                if gk.startswith("__global__:") and gk not in st.env:
                    st.env[gk] = gv
        vals = []
        for o in outs:
            if o.term is not None and o.term[0] == "return":
                vals.append(o.term[1])
            elif o.term is None:
                vals.append(K(None))
            else:
                vals.append(U("raises"))
                if o.term[0] == "raise" and len(outs) == 1:
                    st.pending = st.pending or str(o.term[1])  # the exception propagates into the caller
        if len(outs) > 1:
            # the callee forked: keep one representative only when all outcomes agree
            if all(v == vals[0] for v in vals) and all(o.effects == outs[0].effects for o in outs):
                return vals[0]
            return U("callee forked")
        return vals[0] if vals else U("no outcome")

    # ---- driver ----------------------------------------------------------------
    def run(self, env: Dict[str, V], body: Optional[List[ast.stmt]] = None, carry: Optional[State] = None) -> List[State]:
        """carry: a final state of an earlier run of the same scenario family; its heap and module-level objects
        are kept (calls in one process share module state)."""
        st = State()
        if carry is not None:
            st.heap = carry.heap
            st._next = carry._next
            for k, v in carry.env.items():
                if k.startswith("__global__:"):
                    st.env[k] = v
        gen0 = st.env.get("__global__:__idgen__", K(0))
        st.env["__global__:__idgen__"] = K((gen0.v if isinstance(gen0, K) else 0) + 1)  # a new top-level call of the history
        st.env["__frame__"] = new_frame_id()
        st.env.update(env)
        if body is None:
            # parameters the scenario does not bind take their declared default
            for p, d in self.fi.defaults().items():
                if p not in st.env:
                    st.env[p] = self.interp.eval(d, st)
        stmts = body if body is not None else self.fi.node.body  # type: ignore[attr-defined]
        return self.interp.run(stmts, st)


class _OracleInterp(Interp):
    def __init__(self, owner: RepoInterp) -> None:
        super().__init__(
            on_name=owner.on_name,
            on_attr=owner.on_attr,
            on_call=owner.on_call,
            on_subscript=owner.on_subscript,
            heap=owner.heap,
        )
        self.owner = owner

    def eval(self, e: ast.AST, st: State) -> V:
        if isinstance(e, (ast.Attribute, ast.Call, ast.Compare, ast.Subscript, ast.Name)):
            key = norm(e)
            if key in self.owner.oracle:
                return self.owner.oracle[key]
        if isinstance(e, ast.Set):
            vals = []
            for x in e.elts:
                if isinstance(x, ast.Starred):
                    seq_s = self.iterate(self.eval(x.value, st), st)
                    if seq_s is None:
                        return U("starred in a set display")
                    vals.extend(st.freeze(y) for y in seq_s)
                else:
                    vals.append(st.freeze(self.eval(x, st)))
            return K(frozenset(vals))
        if isinstance(e, ast.JoinedStr):
            out: Optional[str] = ""
            for part in e.values:  # every replacement field is evaluated, also after the text is known to be undetermined: it may raise
                if isinstance(part, ast.Constant):
                    out = out + str(part.value) if out is not None else None
                elif isinstance(part, ast.FormattedValue):
                    v = self.eval(part.value, st)
                    if st.pending is not None:
                        return U("f-string field raised")
                    if out is not None and part.format_spec is None and part.conversion in (-1, 115) and isinstance(v, R) and v.kind == "exc" and isinstance(v.fields.get("message"), K):
                        out += str(v.fields["message"].v)  # str(exception) is its message
                    elif out is not None and part.format_spec is None and part.conversion in (-1, 115, 114) and isinstance(v, K) and isinstance(v.v, (str, int)) and not isinstance(v.v, bool):
                        out += repr(v.v) if part.conversion == 114 else str(v.v)  # !r / !s / none
                    else:
                        out = None
                else:
                    out = None
            return K(out) if out is not None else U("f-string with a non-constant part")
        if isinstance(e, ast.BinOp) and isinstance(e.op, (ast.BitAnd, ast.BitOr, ast.Mult, ast.FloorDiv, ast.Mod)):
            l, r = self.eval(e.left, st), self.eval(e.right, st)
            if isinstance(e.op, ast.Mod) and isinstance(l, K) and isinstance(l.v, str):
                vals = r.v if isinstance(r, K) and isinstance(r.v, tuple) else (r,)
                if all(isinstance(x, K) and isinstance(x.v, (str, int, float)) for x in vals):
                    try:
                        return K(l.v % tuple(x.v for x in vals))
                    except Exception:
                        return U("% formatting")
                return U("% formatting of a non-constant")
            if isinstance(e.op, ast.Mult) and isinstance(l, K) and isinstance(r, K) and isinstance(l.v, (str, int)) and isinstance(r.v, (str, int)):
                try:
                    return K(l.v * r.v)
                except Exception:
                    return U("mult")
            if isinstance(l, K) and isinstance(r, K) and isinstance(l.v, int) and isinstance(r.v, int):
                ops = {ast.BitAnd: lambda a, b: a & b, ast.BitOr: lambda a, b: a | b, ast.Mult: lambda a, b: a * b,
                       ast.FloorDiv: lambda a, b: a // b if b else 0, ast.Mod: lambda a, b: a % b if b else 0}
                return K(ops[type(e.op)](l.v, r.v))
            return U("binop")
        return super().eval(e, st)

    def branch(self, e: ast.AST, st: State) -> List[Tuple[State, bool]]:
        res = super().branch(e, st)
        if len(res) == 2 and not isinstance(e, (ast.BoolOp,)) and not (isinstance(e, ast.UnaryOp) and isinstance(e.op, ast.Not)):
            key = norm(e)
            if res[0][0] is not res[1][0]:
                self.owner.forked.append(key)
                if self.owner.may_fork is not None and key not in self.owner.may_fork and "*" not in self.owner.may_fork:
                    raise AnalysisError(
                        f"{self.owner.cur_fi.fq}: branch condition `{key}` is not decided by the scenario "
                        f"(unrecognised condition atom; the rule's abstraction does not cover it)"
                    )
        return res


def _with_env(st: State, extra: Dict[str, V]) -> State:
    sub = st.fork()
    sub.effects, sub.heap, sub._next = st.effects, st.heap, st._next
    sub.env.update(extra)
    return sub


def _py_eq_key(v: Any) -> Any:
    """a stand-in that is equal for two abstract values exactly when the Python values they describe compare equal (and hash
    alike): numbers by value across bool / int / float, tuples element-wise (model tuples `val` of class tuple included)"""
    if isinstance(v, K):
        if isinstance(v.v, (bool, int, float)):
            return K(("num", float(v.v)))
        if isinstance(v.v, tuple):
            return K(("tuple", tuple(_py_eq_key(x) for x in v.v)))
        return v
    if isinstance(v, R) and v.kind == "val" and isinstance(v.fields.get("cls"), S) and v.fields["cls"].name == "builtin:tuple" and isinstance(v.fields.get("elems"), K):
        return K(("tuple", tuple(_py_eq_key(x) for x in v.fields["elems"].v)))
    return v


def platform_subscript(obj: V, key: V) -> Optional[V]:
    if isinstance(obj, S) and obj.name == "mod:opcode.opmap" and isinstance(key, K) and isinstance(key.v, str):
        if key.v not in _opcode.opmap:
            raise AnalysisError(f"opcode.opmap[{key.v!r}] does not exist on this interpreter: importing the module would fail")
        return K(_opcode.opmap[key.v])
    return None


def platform_call(fname: Optional[str], fval: Optional[V], call: ast.Call, args: List[V], kwargs: Dict[str, V]) -> Optional[V]:
    if isinstance(fval, S) and fval.name == "mod:opcode.opmap" and isinstance(call.func, ast.Attribute) and call.func.attr == "get":
        if args and isinstance(args[0], K) and isinstance(args[0].v, str):
            if args[0].v in _opcode.opmap:
                return K(_opcode.opmap[args[0].v])
            return args[1] if len(args) > 1 else K(None)
    if isinstance(fval, K) and isinstance(fval.v, str) and isinstance(call.func, ast.Attribute) and call.func.attr == "format" \
            and all(isinstance(a, K) and isinstance(a.v, (str, int)) for a in list(args) + list(kwargs.values())):
        try:
            return K(fval.v.format(*[a.v for a in args], **{k: v.v for k, v in kwargs.items()}))
        except Exception:
            return None
    if isinstance(fval, K) and isinstance(fval.v, str) and isinstance(call.func, ast.Attribute) and call.func.attr in _STR_FOLD \
            and all(isinstance(a, K) for a in args) and not kwargs:
        try:
            raw = [tuple(x.v if isinstance(x, K) else x for x in a.v) if isinstance(a.v, tuple) else a.v for a in args]  # startswith(("a", "b"))
            r = getattr(fval.v, call.func.attr)(*raw)
        except Exception:
            return None
        if isinstance(r, list):
            r = tuple(r)
        return K(r)
    if fname in ("keyword.iskeyword", "iskeyword", "keyword.issoftkeyword") and len(args) == 1 and isinstance(args[0], K) and not kwargs:
        import keyword as _kw  # platform table of reserved words, read as data
        return K(bool(isinstance(args[0].v, str) and (_kw.iskeyword(args[0].v) if "soft" not in fname else _kw.issoftkeyword(args[0].v))))
    if fname in ("unicodedata.normalize", "unicodedata.is_normalized") and len(args) == 2 and not kwargs and all(isinstance(a, K) and isinstance(a.v, str) for a in args):
        import unicodedata as _ud  # the Unicode database of the platform, read as data (a pure function of two strings)
        try:
            return K(getattr(_ud, fname.split(".")[1])(args[0].v, args[1].v))
        except Exception:
            return None
    if fname is not None and fname.startswith("str.") and fname.split(".", 1)[1] in _STR_FOLD and args and not kwargs and all(isinstance(a, K) for a in args) and isinstance(args[0].v, str):
        # the unbound form `str.isalnum(word)` (what `filter(str.isalnum, words)` calls): the method of the constant string
        try:
            r_s = getattr(str, fname.split(".", 1)[1])(*[a.v for a in args])
        except Exception:
            return None
        return K(tuple(r_s) if isinstance(r_s, list) else r_s)
    if fname in ("re.sub", "re.escape", "re.fullmatch", "re.match", "re.search", "re.split", "re.findall") and args and not kwargs \
            and all(isinstance(a, K) and isinstance(a.v, (str, int)) for a in args):
        import re as _re  # pure string functions of the platform library, on constant arguments
        try:
            r_ = getattr(_re, fname.split(".")[1])(*[a.v for a in args])
        except Exception:
            return None
        if fname in ("re.fullmatch", "re.match", "re.search"):
            return K(r_ is not None)  # only the truth of a match object is modelled
        if isinstance(r_, list):
            return K(tuple(K(x) for x in r_)) if all(isinstance(x, str) for x in r_) else None
        return K(r_)
    if fname == "bool" and len(args) == 1 and isinstance(args[0], K):
        return K(bool(args[0].v))
    if fname in ("os.path.splitext", "os.path.basename", "os.path.dirname", "os.path.join", "posixpath.splitext") and args \
            and all(isinstance(a, K) and isinstance(a.v, str) for a in args) and not kwargs:
        import posixpath as _pp  # pure string functions of the platform library
        r = getattr(_pp, fname.rsplit(".", 1)[1])(*[a.v for a in args])
        return K(tuple(K(x) for x in r)) if isinstance(r, tuple) else K(r)
    if fname in ("int", "str") and len(args) == 1 and isinstance(args[0], K) and isinstance(args[0].v, (int, str, bool)):
        try:
            return K(int(args[0].v) if fname == "int" else str(args[0].v))
        except Exception:
            return None
    if fname == "id" and len(args) == 1:
        return R("id", of=args[0])
    if fname is not None and fname.startswith("inspect.CO_"):
        return None
    if fname == "len" and len(args) == 1:
        a = args[0]
        if isinstance(a, K) and isinstance(a.v, (bytes, str, tuple, frozenset)):
            return K(len(a.v))
        if isinstance(a, R) and a.kind == "list":
            return K(len(a.fields["items"]))
    if fname in ("set", "frozenset", "tuple") and len(args) == 1 and isinstance(args[0], (K, R)):
        a = args[0]
        items = a.v if isinstance(a, K) else a.fields.get("items", ())
        if isinstance(items, (tuple, frozenset)):
            return K(frozenset(items)) if fname != "tuple" else K(tuple(items))
    return None


def instance_containers(repo: Repo, ci: Any, known: Iterable[str] = ()) -> Dict[str, ast.AST]:
    """attributes that __init__ (of the class or a package base) initialises to an empty mutable container - a memo,
    a registry: scenarios give them one real heap object that lives as long as the instance"""
    out: Dict[str, ast.AST] = {}
    if ci is None:
        return out
    for c in reversed(repo.mro(ci)):
        init = c.methods.get("__init__")
        if init is None:
            continue
        for x in ast.walk(init.node):
            tgt = val = None
            if isinstance(x, ast.Assign) and len(x.targets) == 1:
                tgt, val = x.targets[0], x.value
            elif isinstance(x, ast.AnnAssign) and x.value is not None:
                tgt, val = x.target, x.value
            if isinstance(tgt, ast.Attribute) and isinstance(tgt.value, ast.Name) and tgt.value.id == "self" and tgt.attr not in known \
                    and val is not None and _is_mutable_ctor(val):
                out[tgt.attr] = val
    return out


def _is_mutable_ctor(e: ast.AST) -> bool:
    if isinstance(e, (ast.Dict, ast.List, ast.Set)):
        return not (isinstance(e, ast.Dict) and e.keys) and not (isinstance(e, (ast.List, ast.Set)) and e.elts)
    return isinstance(e, ast.Call) and (dotted(e.func) or "").split(".")[-1] in ("dict", "list", "set", "defaultdict", "OrderedDict", "WeakKeyDictionary", "WeakValueDictionary", "Counter") and not e.args and not e.keywords or \
        (isinstance(e, ast.Call) and (dotted(e.func) or "").split(".")[-1] == "defaultdict")


_STR_FOLD = {"startswith", "endswith", "split", "rsplit", "partition", "rpartition", "lower", "upper", "strip",
             "lstrip", "rstrip", "find", "count", "isidentifier", "isalnum", "replace", "casefold", "title", "isdigit", "isalpha", "isdecimal", "isnumeric",
             "isupper", "islower", "isspace", "isascii", "capitalize", "swapcase", "removeprefix", "removesuffix", "index", "rfind", "zfill", "splitlines", "join"}

_CONST_CACHE: Dict[Tuple[str, str], V] = {}


def fold_const(repo: Repo, mod: Module, name: str) -> V:
    """Abstract value of a module-level constant (folded against platform tables)."""
    key = (mod.name, name)
    if key in _CONST_CACHE:
        return _CONST_CACHE[key]
    _CONST_CACHE[key] = U("recursive constant")
    dummy = FunctionInfo(mod, "<module>", ast.parse("def _m(): pass").body[0])
    ri = RepoInterp(repo, dummy, may_fork={"*"})
    v = ri.interp.eval(mod.constants[name], State())
    _CONST_CACHE[key] = v
    return v


# ---------------------------------------------------------------------------
# Parameter forwarding across the package's call graph
# ---------------------------------------------------------------------------

def call_sites(repo: Repo, callee_pred: Callable[[FunctionInfo], bool]) -> List[Tuple[FunctionInfo, ast.Call, FunctionInfo]]:
    """(caller, call node, resolved callee) for every call in the package whose callee satisfies pred."""
    out = []
    for fi in repo.all_functions():
        for c in calls_in(fi.node):
            callee = repo.resolve_callee(fi, c)
            if callee is not None and callee_pred(callee):
                out.append((fi, c, callee))
    return out


def bound_argument(callee: FunctionInfo, call: ast.Call, param: str) -> Optional[ast.AST]:
    """The argument expression bound to `param` at this call (None = omitted)."""
    skip_self = callee.cls is not None and "staticmethod" not in callee.decorators()
    b = bind_args(callee, call, skip_self=skip_self)
    return b.get(param)


def attr_stores(repo: Repo, ci: Any, attr: str) -> List[Tuple[FunctionInfo, ast.AST, ast.AST]]:
    """(method, statement, value) for every `self.<attr> = value` in class ci (and package subclasses)."""
    out = []
    classes = [ci] + repo.subclasses(ci)
    for c in classes:
        for m in c.methods.values():
            for x in walk_no_nested(m.node):
                if isinstance(x, (ast.Assign, ast.AnnAssign)):
                    tgts = x.targets if isinstance(x, ast.Assign) else [x.target]
                    for t in tgts:
                        if isinstance(t, ast.Attribute) and t.attr == attr and is_name(t.value, "self"):
                            out.append((m, x, x.value))
                elif isinstance(x, ast.AugAssign) and isinstance(x.target, ast.Attribute) and x.target.attr == attr and is_name(x.target.value, "self"):
                    out.append((m, x, x))
    return out


def attr_is_param(repo: Repo, ci: Any, attr: str, param: str) -> Tuple[bool, str]:
    """`self.attr` is only ever assigned, in __init__, the constructor parameter `param` unchanged."""
    st = attr_stores(repo, ci, attr)
    if not st:
        return False, f"no store to self.{attr}"
    for m, stmt, val in st:
        if m.qualname.split(".")[-1] != "__init__":
            return False, f"self.{attr} assigned outside __init__: {norm(stmt)}"
        if not is_name(val, param):
            return False, f"self.{attr} is not the constructor parameter `{param}`: {norm(stmt)}"
        g = cfg_of(m)
        n = g.node_of(val)
        if n is None or not all(k == "param" for _, k, _ in g.origins(val, n.id)):
            return False, f"`{param}` is rebound before being stored: {norm(stmt)}"
    return True, ""



def block_entry(repo: Repo, name: str = "trace_calls", module: str = "monkeytype.tracing") -> FunctionInfo:
    """what `trace_calls(...)` calls: the @contextmanager generator function - or, where the tracing block has been turned into a
    class with __enter__/__exit__, that class's __init__ (the parameters of the call, the name under which reports are filed)"""
    f = repo.fn(module, name, required=False)
    if f is not None:
        return f
    ci = repo.cls(module, name, required=False)
    if ci is not None:
        init = repo.method(ci, "__init__")
        if init is not None and repo.method(ci, "__enter__") is not None and repo.method(ci, "__exit__") is not None:
            return init
    raise AnalysisError(f"anchor {module}.{name} not found: neither a function nor a context-manager class")



def follow_constant(repo: Repo, mod: Any, name: str, depth: int = 0) -> Optional[ast.AST]:
    """the expression a module-level name is finally bound to: aliases (`A = B`) and imports from other modules of the package
    (`from monkeytype.x import A`, also `import ... as`) are followed"""
    if depth > 6:
        return None
    node = mod.constants.get(name)
    if node is not None and not (isinstance(node, ast.Name) and node.id == name):
        if isinstance(node, ast.Name):
            return follow_constant(repo, mod, node.id, depth + 1)
        return node
    tgt = mod.imports.get(name)
    if tgt and "." in tgt:
        m2, _, n2 = tgt.rpartition(".")
        if m2 in repo.modules:
            return follow_constant(repo, repo.modules[m2], n2, depth + 1)
    return None
