"""Interprocedural taint / effect analysis: which operations of the package are applied to
*program values* (objects of the traced program) and can dispatch into user-defined code.

Levels   NONE < CONT < VAL
  VAL    a program value (anything the traced program created)
  CONT   an interpreter-owned container/iterator whose *elements* are program values
         (frame.f_locals, frame.f_globals, their views, generators over them)
Flow-insensitive per function, context-insensitive across calls, fixpoint over the call graph.
"""
from __future__ import annotations

import ast
from typing import Any, Callable, Dict, Iterable, List, Optional, Set, Tuple

from .cfg import CFG
from .index import FunctionInfo, Repo, bind_args, dotted, norm, walk_no_nested

NONE, CONT, VAL = 0, 1, 2

FRAME_CONTAINERS = {"f_locals", "f_globals", "f_builtins"}
CONTAINER_VIEW_METHODS = {"keys", "values", "items"}
PASSTHROUGH_CALLS = {"cast", "typing.cast"}
STATIC_GETTERS = {"inspect.getattr_static", "getattr_static"}


class Taint:
    def __init__(self, repo: Repo, seeds: Dict[str, Dict[str, int]], scope: Optional[Callable[[FunctionInfo], bool]] = None) -> None:
        self.repo = repo
        self.params: Dict[str, Dict[str, int]] = {k: dict(v) for k, v in seeds.items()}
        self.locals: Dict[str, Dict[str, int]] = {}
        self.returns: Dict[str, int] = {}
        self.fns: Dict[str, FunctionInfo] = {}
        self.scope = scope or (lambda fi: True)
        self.callers: Dict[str, Set[str]] = {}
        self.attrs: Dict[Tuple[str, str], int] = {}  # (class, attribute) -> level of what is stored there
        self._cur: Optional[FunctionInfo] = None
        # locals that hold callables taken out of a module-level table: (function, local name) -> pseudo-functions
        self.fnvals: Dict[Tuple[str, str], List[FunctionInfo]] = {}
        self.objvals: Dict[Tuple[str, str], Any] = {}  # (function, local name) -> class of the package object it holds
        self._lambda_fis: Dict[int, FunctionInfo] = {}
        work = []
        for fq in seeds:
            fi = self._lookup(fq)
            self.fns[fq] = fi
            work.append(fq)
        rounds = 0
        while work:
            rounds += 1
            if rounds > 5000:
                raise RuntimeError("taint fixpoint did not converge")
            fq = work.pop()
            changed_callees, ret_changed = self._analyse(self.fns[fq])
            for c in changed_callees:
                if c not in work:
                    work.append(c)
            if ret_changed:
                for c in self.callers.get(fq, ()):
                    if c not in work:
                        work.append(c)

    def _lookup(self, fq: str) -> FunctionInfo:
        for m in sorted(self.repo.modules, key=len, reverse=True):
            if fq.startswith(m + "."):
                q = fq[len(m) + 1:]
                if q in self.repo.modules[m].functions:
                    return self.repo.modules[m].functions[q]
        raise KeyError(fq)

    # -- per function -------------------------------------------------------------
    def _analyse(self, fi: FunctionInfo) -> Tuple[Set[str], bool]:
        fq = fi.fq
        loc = self.locals.setdefault(fq, {})
        for p, lv in self.params.get(fq, {}).items():
            loc[p] = max(loc.get(p, NONE), lv)
        changed_callees: Set[str] = set()
        self._cur = fi
        self._changed_callees = changed_callees
        stable = False
        ret = self.returns.get(fq, NONE)
        n = 0
        while not stable:
            n += 1
            if n > 50:
                break
            stable = True
            for x in walk_no_nested(fi.node):
                if isinstance(x, (ast.Assign, ast.NamedExpr)):
                    tgts = x.targets if isinstance(x, ast.Assign) else [x.target]
                    cs = self._table_callables(fi, x.value)
                    if not cs and isinstance(x.value, ast.Call) and (dotted(x.value.func) or "") in ("functools.partial", "partial") and x.value.args \
                            and all(k.arg is not None for k in x.value.keywords) and len(x.value.args) == 1:
                        # f = functools.partial(g, name=value): calling f(a) is calling g(a, name=value) - g's positional parameters
                        # see the arguments of the later call (arguments bound by keyword here carry no program value or are
                        # classified where g uses them)
                        cs = self._callable_arg(fi, x.value.args[0])
                    for t in tgts:
                        if cs and isinstance(t, ast.Name):
                            self.fnvals[(fq, t.id)] = cs
                if isinstance(x, ast.Assign) and isinstance(x.value, ast.Call) and len(x.targets) == 1 and isinstance(x.targets[0], ast.Name):
                    ctor = self.repo.resolve_callee(fi, x.value)
                    if ctor is not None and ctor.cls is not None and ctor.qualname.endswith(".__init__"):
                        self.objvals[(fq, x.targets[0].id)] = ctor.cls  # a local object of a package class
                if isinstance(x, ast.Assign):
                    lv = self.level(x.value)
                    for t in x.targets:
                        stable &= not self._bind(t, lv, loc)
                elif isinstance(x, ast.AnnAssign) and x.value is not None:
                    stable &= not self._bind(x.target, self.level(x.value), loc)
                elif isinstance(x, ast.AugAssign):
                    stable &= not self._bind(x.target, self.level(x.value), loc)
                elif isinstance(x, ast.NamedExpr):
                    stable &= not self._bind(x.target, self.level(x.value), loc)
                elif isinstance(x, (ast.For, ast.AsyncFor)):
                    cs_f = self._table_callables(fi, x.iter)
                    if cs_f and isinstance(x.target, ast.Name):
                        self.fnvals[(fq, x.target.id)] = cs_f
                    elif cs_f and isinstance(x.target, (ast.Tuple, ast.List)):
                        for t_ in x.target.elts:  # rows of (predicate, action): every element may be any callable of the table
                            if isinstance(t_, ast.Name):
                                self.fnvals[(fq, t_.id)] = cs_f
                    lv = self.level(x.iter)
                    stable &= not self._bind(x.target, VAL if lv >= CONT else NONE, loc)
                elif isinstance(x, ast.comprehension):
                    lv = self.level(x.iter)
                    stable &= not self._bind(x.target, VAL if lv >= CONT else NONE, loc)
                elif isinstance(x, ast.Return) and x.value is not None:
                    ret = max(ret, self.level(x.value))
                elif isinstance(x, ast.Yield) and x.value is not None:
                    if self.level(x.value) >= VAL:
                        ret = max(ret, CONT)
                elif isinstance(x, ast.YieldFrom):
                    if self.level(x.value) >= CONT:
                        ret = max(ret, CONT)
                elif isinstance(x, ast.Call):
                    self.level(x)  # propagates into callees
        ret_changed = ret != self.returns.get(fq, NONE)
        self.returns[fq] = ret
        return changed_callees, ret_changed

    # -- callables kept in module-level tables (dispatch tables of lambdas / function names) -----------------------------
    def _lambda_function(self, mod: Any, lam: ast.Lambda, label: str) -> FunctionInfo:
        """a lambda as a function of its own: `def <label>(params): return <body>`"""
        if id(lam) not in self._lambda_fis:
            fd = ast.FunctionDef(name=label, args=lam.args, body=[ast.Return(value=lam.body)], decorator_list=[], returns=None, type_comment=None)
            ast.copy_location(fd, lam)
            ast.copy_location(fd.body[0], lam)
            ast.fix_missing_locations(fd)
            self._lambda_fis[id(lam)] = FunctionInfo(mod, label, fd)
        return self._lambda_fis[id(lam)]

    def _table_callables(self, fi: FunctionInfo, e: ast.AST) -> List[FunctionInfo]:
        """the callables an expression may denote when it is `TABLE.get(k[, d])`, `TABLE[k]` or an element of iterating
        TABLE, for a module-level constant TABLE that holds lambdas and/or names of package functions"""
        tbl: Optional[ast.AST] = None
        owner: Any = None  # the class whose body the table is written in (bare names there are its methods)
        base: Optional[ast.AST] = None
        if isinstance(e, ast.Call) and isinstance(e.func, ast.Attribute) and e.func.attr in ("get", "pop"):
            base = e.func.value
        elif isinstance(e, ast.Subscript):
            base = e.value
        elif isinstance(e, (ast.Name, ast.Attribute)):
            base = e
        label = "?"
        if isinstance(base, ast.Name):
            tbl = fi.module.constants.get(base.id)
            label = base.id
        elif isinstance(base, ast.Attribute) and isinstance(base.value, ast.Name) and base.value.id in ("self", "cls") and fi.cls is not None:
            for c in self.repo.mro(fi.cls):
                if base.attr in c.attrs:
                    tbl, owner, label = c.attrs[base.attr], c, f"{c.name}.{base.attr}"
                    break
        if tbl is None:
            return []
        out: List[FunctionInfo] = []
        n = 0
        for x in ast.walk(tbl):
            if isinstance(x, ast.Lambda):
                n += 1
                out.append(self._lambda_function(fi.module, x, f"<lambda#{n} of {label}>"))
            elif isinstance(x, ast.Name) and owner is not None and x.id in owner.methods:
                out.append(owner.methods[x.id])
            elif isinstance(x, ast.Name) and x.id in fi.module.functions and fi.module.functions[x.id].cls is None:
                out.append(fi.module.functions[x.id])
        return out

    def _callable_arg(self, fi: FunctionInfo, a: ast.AST) -> List[FunctionInfo]:
        """an argument that is itself a callable of the package: a function's name, a lambda, or a local that holds table entries"""
        if isinstance(a, ast.Lambda):
            return [self._lambda_function(fi.module, a, f"<lambda in {fi.qualname}>")]
        if isinstance(a, ast.Name):
            if (fi.fq, a.id) in self.fnvals:
                return list(self.fnvals[(fi.fq, a.id)])
            if a.id in fi.module.functions and fi.module.functions[a.id].cls is None:
                return [fi.module.functions[a.id]]
            tgt = fi.module.imports.get(a.id, "")
            m2, _, n2 = tgt.rpartition(".")
            if m2 in self.repo.modules and n2 in self.repo.modules[m2].functions:
                return [self.repo.modules[m2].functions[n2]]
        return []

    def _unique_method(self, name: str) -> Optional[FunctionInfo]:
        """`obj.name(...)` on a receiver of unknown class: the one method of that name among the classes in scope"""
        hits = [f for m in self.repo.modules.values() for f in m.functions.values() if f.cls is not None and f.qualname.split(".")[-1] == name and self.scope(f)]
        return hits[0] if len(hits) == 1 else None

    def _call_into(self, callee: FunctionInfo, arg_levels: List[int], fi: FunctionInfo, skip_first: bool = False) -> int:
        self.fns.setdefault(callee.fq, callee)
        self.callers.setdefault(callee.fq, set()).add(fi.fq)
        ps = callee.positional_params()
        if skip_first and ps and ps[0] in ("self", "cls"):
            ps = ps[1:]
        cp = self.params.setdefault(callee.fq, {})
        for p_, lv in zip(ps, arg_levels):
            if lv > cp.get(p_, NONE):
                cp[p_] = lv
                self._changed_callees.add(callee.fq)
        if callee.fq not in self.locals:
            self._changed_callees.add(callee.fq)
            self.locals[callee.fq] = {}
        return self.returns.get(callee.fq, NONE)

    def _bind(self, t: ast.AST, lv: int, loc: Dict[str, int]) -> bool:
        ch = False
        if isinstance(t, ast.Name):
            if lv > loc.get(t.id, NONE):
                loc[t.id] = lv
                ch = True
        elif isinstance(t, (ast.Tuple, ast.List)):
            for e in t.elts:
                ch |= self._bind(e, lv, loc)
        elif isinstance(t, ast.Starred):
            ch |= self._bind(t.value, lv, loc)
        elif isinstance(t, ast.Attribute) and isinstance(t.value, ast.Name) and t.value.id == "self":
            ch |= self._bind_attr(t.attr, lv)
        elif isinstance(t, ast.Subscript) and isinstance(t.value, ast.Attribute) and isinstance(t.value.value, ast.Name) and t.value.value.id == "self":
            # self.table[key] = <program value>  =>  self.table is a container of program values
            ch |= self._bind_attr(t.value.attr, CONT if lv >= VAL else NONE)
        return ch

    def _bind_attr(self, attr: str, lv: int) -> bool:
        cls = self._cur.cls.fq if self._cur is not None and self._cur.cls is not None else "?"
        if lv > self.attrs.get((cls, attr), NONE):
            self.attrs[(cls, attr)] = lv
            # every method of the class may read it
            for fq, fi in self.fns.items():
                if fi.cls is not None and fi.cls.fq == cls:
                    self._changed_callees.add(fq)
            return True
        return False

    def level(self, e: Optional[ast.AST], fi: Optional[FunctionInfo] = None) -> int:
        if e is None:
            return NONE
        fi = fi or self._cur
        assert fi is not None
        loc = self.locals.get(fi.fq, {})
        if isinstance(e, ast.Name):
            return loc.get(e.id, NONE)
        if isinstance(e, ast.Attribute):
            if e.attr in FRAME_CONTAINERS:
                return CONT
            if isinstance(e.value, ast.Name) and e.value.id == "self" and fi.cls is not None:
                return self.attrs.get((fi.cls.fq, e.attr), NONE)
            base = self.level(e.value, fi)
            if base == VAL:
                return VAL
            return NONE
        if isinstance(e, ast.Subscript):
            base = self.level(e.value, fi)
            return VAL if base >= CONT else NONE
        if isinstance(e, ast.Starred):
            return self.level(e.value, fi)
        if isinstance(e, (ast.IfExp,)):
            return max(self.level(e.body, fi), self.level(e.orelse, fi))
        if isinstance(e, ast.BoolOp):
            return max(self.level(v, fi) for v in e.values)
        if isinstance(e, ast.NamedExpr):
            return self.level(e.value, fi)
        if isinstance(e, (ast.GeneratorExp, ast.ListComp, ast.SetComp)):
            return CONT if self.level(e.elt, fi) >= VAL else NONE
        if isinstance(e, ast.DictComp):
            return CONT if max(self.level(e.key, fi), self.level(e.value, fi)) >= VAL else NONE
        if isinstance(e, ast.Dict):
            return CONT if any(self.level(x, fi) >= VAL for x in list(e.values) + [k for k in e.keys if k is not None]) else NONE
        if isinstance(e, (ast.Tuple, ast.List, ast.Set)):
            return CONT if any(self.level(x, fi) >= VAL for x in e.elts) else NONE
        if isinstance(e, ast.Await):
            return self.level(e.value, fi)
        if isinstance(e, ast.Call):
            d = dotted(e.func) or ""
            if d == "type" and len(e.args) == 1:
                return NONE
            if d in PASSTHROUGH_CALLS and len(e.args) == 2:
                return self.level(e.args[1], fi)
            if d in STATIC_GETTERS or d.endswith(".getattr_static"):
                return VAL if e.args and self.level(e.args[0], fi) >= VAL else NONE
            if d == "getattr":
                return VAL if e.args and self.level(e.args[0], fi) >= VAL else NONE
            if d in ("iter", "list", "tuple", "set", "frozenset", "sorted", "reversed", "enumerate", "zip") and e.args:
                return CONT if any(self.level(a, fi) >= CONT for a in e.args) else NONE
            if d == "next" and e.args:
                return VAL if self.level(e.args[0], fi) >= CONT else NONE
            if d in ("filter", "map", "itertools.filterfalse", "filterfalse", "itertools.takewhile", "takewhile", "itertools.dropwhile", "dropwhile") and len(e.args) == 2:
                src = self.level(e.args[1], fi)
                f0 = e.args[0]
                if isinstance(f0, ast.Name) and f0.id in fi.module.functions and fi.module.functions[f0.id].cls is None and self.scope(fi.module.functions[f0.id]):
                    r0 = self._call_into(fi.module.functions[f0.id], [VAL if src >= CONT else NONE], fi)
                    if d == "map":
                        return CONT if r0 >= VAL else NONE
                elif isinstance(f0, ast.Lambda):
                    r0 = self._call_into(self._lambda_function(fi.module, f0, f"<lambda in {fi.qualname}>"), [VAL if src >= CONT else NONE], fi)
                    if d == "map":
                        return CONT if r0 >= VAL else NONE
                return CONT if src >= CONT else NONE  # the predicate's operand is classified where the predicate is defined
            if d.split(".")[-1] in ("islice", "tee", "cycle", "chain") and d.split(".")[0] in ("itertools", "islice", "tee", "cycle", "chain") and e.args:
                return CONT if any(self.level(a, fi) >= CONT for a in e.args) else NONE
            if d in ("itertools.chain.from_iterable", "chain.from_iterable") and len(e.args) == 1:
                a0 = e.args[0]
                if isinstance(a0, (ast.GeneratorExp, ast.ListComp)):
                    return CONT if self.level(a0.elt, fi) >= CONT else NONE
                return CONT if self.level(a0, fi) >= CONT else NONE
            if isinstance(e.func, (ast.Subscript, ast.Call)):
                # `TABLE[key](...)` / `TABLE.get(key, default)(...)`: a direct call through an entry of a dispatch table
                cs_t = self._table_callables(fi, e.func)
                if cs_t:
                    levels = [self.level(a, fi) for a in e.args]
                    rs = [self._call_into(c_, levels, fi) for c_ in cs_t]
                    return max(rs) if rs else NONE
            if isinstance(e.func, ast.Name) and (fi.fq, e.func.id) in self.fnvals:
                # a call through a local that holds an entry of a module-level dispatch table: every entry may be meant
                levels = [self.level(a, fi) for a in e.args]
                rs = [self._call_into(c_, levels, fi) for c_ in self.fnvals[(fi.fq, e.func.id)]]  # f(obj, ...) binds obj to `self` too
                return max(rs) if rs else NONE
            if isinstance(e.func, ast.Attribute):
                base = self.level(e.func.value, fi)
                if base >= CONT and e.func.attr in ("get", "pop", "setdefault", "__getitem__"):
                    return VAL
                if base >= CONT and e.func.attr in CONTAINER_VIEW_METHODS | {"copy", "__iter__"}:
                    return CONT
            callee = self.repo.resolve_callee(fi, e)
            if callee is None and isinstance(e.func, ast.Attribute) and isinstance(e.func.value, ast.Name) and e.func.value.id in fi.params \
                    and fi.qualname.startswith("<lambda"):
                callee = self._unique_method(e.func.attr)  # `tracer.handle_call(frame)` inside a table lambda
            if callee is None and isinstance(e.func, ast.Attribute) and isinstance(e.func.value, ast.Name) and (fi.fq, e.func.value.id) in self.objvals:
                callee = self.repo.method(self.objvals[(fi.fq, e.func.value.id)], e.func.attr)  # search.run() on a local object
            if callee is not None and self.scope(callee):
                self.fns.setdefault(callee.fq, callee)
                self.callers.setdefault(callee.fq, set()).add(fi.fq)
                skip_self = callee.cls is not None and "staticmethod" not in callee.decorators()
                bound = bind_args(callee, e, skip_self=skip_self)
                cp = self.params.setdefault(callee.fq, {})
                for p, a in bound.items():
                    lv = self.level(a, fi)
                    if p.startswith("*"):
                        continue
                    cs_a = self._callable_arg(fi, a)
                    if cs_a:
                        have = self.fnvals.setdefault((callee.fq, p), [])
                        for c_ in cs_a:
                            if c_ not in have:
                                have.append(c_)
                                self._changed_callees.add(callee.fq)
                    if lv > cp.get(p, NONE):
                        cp[p] = lv
                        self._changed_callees.add(callee.fq)
                if callee.fq not in self.locals:
                    self._changed_callees.add(callee.fq)
                    self.locals[callee.fq] = {}
                # a constructor returns an object holding the values: not itself a program value
                if callee.qualname.endswith(".__init__"):
                    return NONE
                return self.returns.get(callee.fq, NONE)
            return NONE
        return NONE
