"""C17 - only code the filter admits, outside __main__, is ever recorded (static clauses).

R-C17.1  the filter verdict gates every effect of the profile function (abstract interpretation of __call__)
R-C17.2  __main__ never reaches the store (CallTraceStoreLogger.log / flush)
R-C17.3  default_code_filter: synthetic names rejected first; both sides of the path test resolved; all
         three library roots; exclusion quantifies over all roots; allow-list branch
R-C17.4  the filter object is forwarded unchanged Config.code_filter() -> trace() -> trace_calls -> CallTracer
"""
from __future__ import annotations

import ast
from typing import Any, Dict, List, Optional, Tuple

from mtsa.absint import K, R, S, U, V, State
from mtsa.index import Repo, calls_in, dotted, norm, walk_no_nested
from mtsa.report import AnalysisError, Ctx

from .common import (RepoInterp, attr_is_param, bound_argument, call_sites, cfg_of, comprehension_conditions,
                     has_guard, is_call_to, is_none, method_call, returns_of)
from .tracer_model import TRUSTED, TracerScenario

LEVEL = "other"
EXPLANATION = (
    "Static decision of the structural clauses of C17: CallTracer.__call__ is interpreted abstractly for every event kind "
    "x filter {absent, accepts, rejects}: a rejected code object reaches neither handle_call nor handle_return nor any "
    "other effect, an accepted one is always dispatched, and the filter is asked about the frame's own code object. "
    "CallTraceStoreLogger.log is interpreted for module names {__main__, other}: only non-__main__ traces are appended, "
    "flush hands exactly the collected list to store.add and resets it. default_code_filter is checked structurally: "
    "empty/synthetic file names return False before any path work; the file name and every library root pass through "
    "Path.resolve() before relative_to/prefix tests; roots cover stdlib, purelib and platlib; the exclusion is "
    "`not any(...)` over all roots, unfiltered; the allow-list branch is selected by `is not None` and tests stem and parts. "
    "The filter is forwarded unchanged from the config to the tracer. Not decided: the verdict for each real file of the "
    "installed interpreter (file-system enumeration), lru_cache staleness."
)
M = "monkeytype.tracing"


def rule_filter_gate(ctx: Ctx, repo: Repo) -> None:
    fi = repo.method(repo.cls(M, "CallTracer"), "__call__")
    ctx.functions.add(fi.fq)
    ps = fi.positional_params()
    if len(ps) != 4:
        raise AnalysisError("CallTracer.__call__ signature changed")
    _, pframe, pevent, parg = ps
    code = R("code", co_name=K("f"), co_filename=K("/src/app.py"))
    fr = R("frame", f_code=code)
    for event in ("call", "return"):
        for verdict in ("absent", "accept", "reject"):
            attrs: Dict[str, V] = {"should_trace": K(None) if verdict == "absent" else S("filter")}
            sc = TracerScenario(repo, "__call__", attrs)
            calls: List[Tuple[str, Tuple[V, ...]]] = []
            asked: List[Tuple[V, ...]] = []

            def hook(call, fname, fval, args, kwargs, st, _calls=calls, _sc=sc, _asked=asked, _verdict=verdict):
                if isinstance(fval, S) and fval.name == "self" and isinstance(call.func, ast.Attribute):
                    if call.func.attr in ("handle_call", "handle_return"):
                        _calls.append((call.func.attr, tuple(args)))
                        return K(None)
                    if call.func.attr == "should_trace":
                        _asked.append(tuple(args))
                        return K(_verdict == "accept")
                return TracerScenario.call_hook(_sc, call, fname, fval, args, kwargs, st)

            sc.ri.call_hook = hook
            outs = sc.run({pframe: fr, pevent: K(event), parg: S("arg")})
            if len(outs) != 1:
                raise AnalysisError("__call__: forked")
            lab = f"event={event} filter={verdict}"
            other = [e for e in outs[0].effects if str(e[0]).startswith(("setitem", "delitem", "logger.", "get_type", "get_func", "setattr"))]
            if verdict != "absent":
                ctx.check(len(asked) == 1 and asked[0] == (code,), "R-C17.1", fi.fq,
                          "the filter is asked exactly once about the frame's own code object",
                          construct=f"{lab}: filter calls {asked}")
            if verdict == "reject":
                ctx.check(not calls and not other, "R-C17.1", fi.fq,
                          "a rejected code object reaches no handler and causes no effect",
                          construct=f"{lab}: dispatched {[c[0] for c in calls]}, effects {[e[0] for e in other]}")
            else:
                want = "handle_call" if event == "call" else "handle_return"
                ctx.check([c[0] for c in calls] == [want], "R-C17.1", fi.fq,
                          "an admitted (or unfiltered) event is always dispatched to its handler",
                          construct=f"{lab}: dispatched {[c[0] for c in calls]}")
    # the verdict used for an event is the filter's verdict about *that* code object, whatever was asked before
    # (two code objects may share file name, first line and name: lambdas, one-line definitions, generated code)
    c1 = R("code", co_name=K("step"), co_filename=K("/src/app.py"), co_firstlineno=K(10), ident=K(1))
    c2 = R("code", co_name=K("step"), co_filename=K("/src/app.py"), co_firstlineno=K(10), ident=K(2))
    for first, second in ((c1, c2), (c2, c1)):
        verdicts = {1: True, 2: False}
        carry = None
        for code_obj in (first, second):
            sc = TracerScenario(repo, "__call__", {"should_trace": S("filter")})
            calls2: List[str] = []
            def hook2(call, fname, fval, args, kwargs, st, _c=calls2, _sc=sc):
                if isinstance(call.func, ast.Attribute) and call.func.attr in ("handle_call", "handle_return") and isinstance(fval, S) and fval.name == "self":
                    _c.append(call.func.attr)
                    return K(None)
                if isinstance(call.func, ast.Attribute) and call.func.attr == "should_trace" and isinstance(fval, S) and fval.name == "self":
                    a = args[0] if args else None
                    return K(verdicts[a.fields["ident"].v]) if isinstance(a, R) and "ident" in a.fields else U("filter asked about something else")
                return TracerScenario.call_hook(_sc, call, fname, fval, args, kwargs, st)
            sc.ri.call_hook = hook2
            outs = sc.run({pframe: R("frame", f_code=code_obj), pevent: K("call"), parg: S("arg")}, carry=carry)
            if len(outs) != 1:
                raise AnalysisError("__call__: forked")
            carry = outs[0]
            want = ["handle_call"] if verdicts[code_obj.fields["ident"].v] else []
            ctx.check(calls2 == want, "R-C17.1", fi.fq,
                      "each event is admitted or rejected by the filter's verdict about its own code object, also when another code object with the same file, line and name was seen before",
                      construct=f"code object #{code_obj.fields['ident'].v} (filter says {verdicts[code_obj.fields['ident'].v]}) after #{first.fields['ident'].v}: dispatched {calls2}")
    # path form of the same fact: no CFG path leads from a rejecting verdict (false edge of the
    # filter call) to a handler call
    g = cfg_of(fi)
    filt_nodes = [x for x in g.stmts() if x.kind == "cond" and is_call_to(x.ast, "should_trace")]
    # (only applicable while the filter is called directly in a branch condition of __call__; if it moved into a
    # helper the abstract interpretation above, which inlines helpers, is the deciding rule)
    for n, c in g.find_calls(lambda c: isinstance(c.func, ast.Attribute) and c.func.attr in ("handle_call", "handle_return") and dotted(c.func.value) == "self"):
        bad = False
        for x in filt_nodes:
            for m, lab in g.succ[x.id]:
                if lab == "F" and n.id in g.reach(m):
                    bad = True
        ctx.check(not bad, "R-C17.1", fi.fq, "no path from a rejecting filter verdict to a handler call", construct=norm(c), node=c)


def rule_main_gate(ctx: Ctx, repo: Repo) -> None:
    ci = repo.cls("monkeytype.db.base", "CallTraceStoreLogger")
    log = repo.method(ci, "log")
    flush = repo.method(ci, "flush")
    ctx.functions.update({log.fq, flush.fq})
    tparam = log.positional_params()[1]
    for modname in ("__main__", "app.models", "__main__.sub", "main"):
        ri = RepoInterp(repo, log, call_hook=None)
        effects: List[Any] = []

        def on_attr(obj, attr, node, st):
            if isinstance(obj, S) and obj.name == "self":
                return S("self." + attr)
            return None

        def hook(call, fname, fval, args, kwargs, st, _e=effects):
            if isinstance(fval, S) and fval.name.startswith("self.") and isinstance(call.func, ast.Attribute):
                _e.append((fval.name, call.func.attr, tuple(args)))
                return K(None)
            return None

        ri.interp.on_attr = on_attr
        ri.call_hook = hook
        trace = R("trace", func=R("func", __module__=K(modname)))
        outs = ri.run({"self": S("self"), tparam: trace})
        if len(outs) != 1:
            raise AnalysisError("CallTraceStoreLogger.log forked")
        stores = [e for e in effects if e[0] == "self.traces" and e[1] in ("append", "extend", "insert", "__iadd__")]
        setattrs = [e for e in outs[0].effects if e[0] in ("setattr", "augassign")]
        store_calls = [e for e in effects if e[0] == "self.store"]
        if modname == "__main__":
            ctx.check(not stores and not setattrs and not store_calls, "R-C17.2", log.fq,
                      "a trace whose function belongs to __main__ is dropped by the store logger",
                      construct=f"module {modname!r}: {[(e[0], e[1]) for e in stores + store_calls]} {setattrs}")
        else:
            ctx.check(len(stores) == 1 and stores[0][1] == "append" and stores[0][2] == (trace,) and not store_calls, "R-C17.2", log.fq,
                      "every other trace is appended to the pending batch exactly once",
                      construct=f"module {modname!r}: {[(e[0], e[1]) for e in stores + store_calls]}")
    # flush: store.add(self.traces) once, then reset to an empty list
    ri = RepoInterp(repo, flush)
    effects2: List[Any] = []
    ri.interp.on_attr = lambda obj, attr, node, st: S("self." + attr) if isinstance(obj, S) and obj.name == "self" else None
    ri.call_hook = lambda call, fname, fval, args, kwargs, st: (effects2.append((fval.name, call.func.attr, tuple(args))) or K(None)) if isinstance(fval, S) and fval.name.startswith("self.") and isinstance(call.func, ast.Attribute) else None
    outs = ri.run({"self": S("self")})
    if len(outs) != 1:
        raise AnalysisError("flush forked")
    adds = [e for e in effects2 if e[0] == "self.store"]
    ctx.check(len(adds) == 1 and adds[0][1] == "add" and adds[0][2] == (S("self.traces"),), "R-C17.2", flush.fq,
              "flush hands exactly the pending batch to store.add, once", construct=f"{adds}")
    resets = [e for e in outs[0].effects if e[0] == "setattr" and e[2] == "traces"]
    ctx.check(len(resets) == 1 and isinstance(resets[0][3], R) and resets[0][3].kind == "list" and not resets[0][3].fields["items"],
              "R-C17.2", flush.fq, "flush resets the pending batch to an empty list", construct=f"{resets}")
    # nothing else in the class writes self.traces
    for m in ci.methods.values():
        for x in walk_no_nested(m.node):
            if isinstance(x, ast.Assign) and any(dotted(t) == "self.traces" for t in x.targets):
                ctx.check(m.qualname.split(".")[-1] in ("__init__", "flush"), "R-C17.2", m.fq,
                          "the pending batch is rebound only by __init__ and flush", construct=norm(x), node=x)


def rule_default_filter(ctx: Ctx, repo: Repo) -> None:
    mod = repo.module("monkeytype.config")
    f = repo.fn("monkeytype.config", "default_code_filter")
    ctx.functions.add(f.fq)
    g = cfg_of(f)
    cparam = f.positional_params()[0]
    # (a) synthetic names: abstract interpretation of the function on empty / <...> file names
    for fn in ("", "<string>", "<frozen importlib._bootstrap>", "<stdin>"):
        ri = RepoInterp(repo, f, may_fork=())
        effects: List[str] = []
        ri.call_hook = lambda call, fname, fval, args, kwargs, st, _e=effects: (None if isinstance(fval, K) and isinstance(fval.v, str) else _e.append(norm(call.func))) or None
        try:
            outs = ri.run({cparam: R("code", co_filename=K(fn), co_name=K("f"))})
        except AnalysisError as e:
            ctx.violate("R-C17.3", f.fq, f"co_filename={fn!r}", f"synthetic file name is not rejected before path work ({e})")
            continue
        ok = len(outs) == 1 and outs[0].term == ("return", K(False)) and not effects
        ctx.check(ok, "R-C17.3", f.fq, "code without a real source file is rejected before any path work",
                  construct=f"co_filename={fn!r}: outcome {[o.term for o in outs]} calls {effects}")
    # (b) the file name is resolved before any relative_to / prefix test
    tests = g.find_calls(lambda c: (isinstance(c.func, ast.Attribute) and c.func.attr in ("relative_to", "is_relative_to")) or is_call_to(c, "_startswith"))
    ctx.floor("R-C17.3", "path prefix tests in default_code_filter", len(tests), 2)
    for n, c in tests:
        subj = c.func.value if isinstance(c.func, ast.Attribute) and c.func.attr in ("relative_to", "is_relative_to") else c.args[0]
        other = c.args[0] if isinstance(c.func, ast.Attribute) and c.func.attr in ("relative_to", "is_relative_to") else c.args[1]
        roots = g.origins(subj, n.id)
        ok = bool(roots) and all(
            (method_call(r, "resolve") and is_call_to(r.func.value, "Path", "PurePath") and
             norm(r.func.value.args[0]) == f"{cparam}.co_filename")
            or (method_call(r, "relative_to") and True)  # the remainder of an already resolved path
            for r, _, _ in roots)
        # relative_to results must themselves come from the resolved name
        for r, _, at in roots:
            if method_call(r, "relative_to"):
                ok = ok and all(method_call(q, "resolve") or method_call(q, "relative_to") for q, _, _ in g.origins(r.func.value, at))
        ctx.check(ok, "R-C17.3", f.fq, "the tested file name went through Path(code.co_filename).resolve()", construct=norm(c), node=c)
        # the other operand is an element of LIB_PATHS
        o_roots = g.origins(other, n.id)
        elem_ok = False
        for x in ast.walk(f.node):
            if isinstance(x, ast.comprehension) and dotted(x.iter) == "LIB_PATHS" and dotted(x.target) == dotted(other) and not x.ifs:
                elem_ok = True
            if isinstance(x, ast.For) and dotted(x.iter) == "LIB_PATHS" and dotted(x.target) == dotted(other):
                elem_ok = True
        ctx.check(elem_ok, "R-C17.3", f.fq, "the library root tested is an element of LIB_PATHS (unfiltered iteration)", construct=norm(c), node=c)
    # (c) LIB_PATHS: every element resolved; keys include stdlib, purelib, platlib
    lp = mod.constants.get("LIB_PATHS")
    if lp is None:
        raise AnalysisError("LIB_PATHS not found")
    comp = [x for x in ast.walk(lp) if isinstance(x, (ast.GeneratorExp, ast.ListComp, ast.SetComp))]
    ok = False
    if comp:
        c0 = comp[0]
        elt = c0.elt
        ok = method_call(elt, "resolve") and is_call_to(elt.func.value, "Path") and len(c0.generators) == 1
        gen = c0.generators[0]
        ok = ok and all(norm(i) in (f"{norm(gen.target)} is not None", f"{norm(gen.target)}") for i in gen.ifs)
        src_name = dotted(gen.iter)
        ok = ok and src_name is not None and src_name in mod.constants
        if ok:
            src = mod.constants[src_name]
            keys = {k.value for k in ast.walk(src) if isinstance(k, ast.Constant) and isinstance(k.value, str)}
            has_get_path = any(is_call_to(x, "get_path") for x in ast.walk(src))
            filt = comprehension_conditions(src)
            ctx.check({"stdlib", "purelib", "platlib"} <= keys and has_get_path and not filt, "R-C17.3", mod.name,
                      "library roots are sysconfig.get_path of stdlib, purelib and platlib (all three)",
                      construct=norm(src))
    ctx.check(ok, "R-C17.3", mod.name, "every library root passes through Path(...).resolve(); only None entries are dropped", construct="LIB_PATHS = " + norm(lp))
    # (d) exclusion is `not any(_startswith(filename, root) for root in LIB_PATHS)`
    found = False
    for n, val in returns_of(f):
        if val is None:
            continue
        if isinstance(val, ast.UnaryOp) and isinstance(val.op, ast.Not) and is_call_to(val.operand, "any"):
            ge = val.operand.args[0] if val.operand.args else None
            if isinstance(ge, (ast.GeneratorExp, ast.ListComp)) and len(ge.generators) == 1 and dotted(ge.generators[0].iter) == "LIB_PATHS" and not ge.generators[0].ifs:
                found = True
                ctx.ok("R-C17.3", f.fq, "code is admitted iff its resolved file is under none of the library roots (not any over all roots)")
                # reached only when no allow-list is configured
    ctx.check(found, "R-C17.3", f.fq, "the default verdict is `not any(<file under root> for root in LIB_PATHS)`", construct="return statements: " + "; ".join(norm(n.ast) for n, _ in returns_of(f)))
    # _startswith(a, b) == a is b or below b
    sw = repo.fn("monkeytype.config", "_startswith", required=False)
    if sw is not None:
        ctx.functions.add(sw.fq)
        a, b = sw.positional_params()[:2]
        tries = [x for x in ast.walk(sw.node) if isinstance(x, ast.Try)]
        ok = False
        if len(tries) == 1:
            t = tries[0]
            rets = [x for x in t.body if isinstance(x, ast.Return)]
            okb = len(rets) == 1 and any(method_call(x, "relative_to") and dotted(x.func.value) == a and dotted(x.args[0]) == b for x in ast.walk(rets[0]))
            okb = okb and (is_call_to(rets[0].value, "bool") or isinstance(rets[0].value, ast.Constant) and rets[0].value.value is True)
            okh = len(t.handlers) == 1 and norm(t.handlers[0].type) == "ValueError" and len(t.handlers[0].body) == 1 and isinstance(t.handlers[0].body[0], ast.Return) and isinstance(t.handlers[0].body[0].value, ast.Constant) and t.handlers[0].body[0].value.value is False
            ok = okb and okh
        ctx.check(ok, "R-C17.3", sw.fq, "_startswith(a, b) is True iff a.relative_to(b) succeeds, False on ValueError", construct=norm(sw.node.body[-1]))
    # (e) allow-list branch
    envs = g.find_calls(lambda c: norm(c.func) in ("os.environ.get", "os.getenv") and c.args and isinstance(c.args[0], ast.Constant) and c.args[0].value == "MONKEYTYPE_TRACE_MODULES")
    ctx.floor("R-C17.3", "read of MONKEYTYPE_TRACE_MODULES", len(envs), 1)
    ctx.check(all(len(c.args) == 1 and not c.keywords for _, c in envs), "R-C17.3", f.fq,
              "the allow-list variable is read without a default (unset stays None)", construct="; ".join(norm(c) for _, c in envs))
    allow_rets = []
    for n, val in returns_of(f):
        if val is not None and is_call_to(val, "any") and not (isinstance(val, ast.UnaryOp)):
            allow_rets.append((n, val))
    ctx.floor("R-C17.3", "allow-list verdict", len(allow_rets), 1)
    for n, val in allow_rets:
        okg = has_guard(g, n.id, lambda a, pol: isinstance(a, ast.Compare) and len(a.ops) == 1 and is_none(a.comparators[0]) and
                        ((isinstance(a.ops[0], ast.IsNot) and pol) or (isinstance(a.ops[0], ast.Is) and not pol)))
        ctx.check(okg, "R-C17.3", f.fq, "the allow-list branch is taken exactly when the variable is set (is not None)", construct=norm(n.ast), node=n.ast)
        ge = val.args[0] if val.args else None
        okq = isinstance(ge, (ast.GeneratorExp, ast.ListComp)) and len(ge.generators) == 1 and not ge.generators[0].ifs
        if okq:
            tv = norm(ge.generators[0].target)
            elt = ge.elt
            atoms = [norm(v) for v in elt.values] if isinstance(elt, ast.BoolOp) and isinstance(elt.op, ast.Or) else [norm(elt)]
            stem = any(a.replace(" ", "") in (f"{tv}==filename.stem".replace(" ", ""), f"filename.stem=={tv}") for a in atoms)
            parts = any(a == f"{tv} in filename.parts" for a in atoms)
            okq = stem and parts
            it_roots = g.origins(ge.generators[0].iter, n.id)
            okq = okq and all(method_call(r, "split") and r.args and isinstance(r.args[0], ast.Constant) and r.args[0].value == "," for r, _, _ in it_roots)
        ctx.check(bool(okq), "R-C17.3", f.fq,
                  "with an allow-list, code is admitted iff some listed name equals the file's stem or one of its path parts",
                  construct=norm(val), node=val)
    # the filter the default configuration ships
    dc = repo.cls("monkeytype.config", "DefaultConfig")
    m = repo.method(dc, "code_filter")
    rets = returns_of(m)
    ctx.check(len(rets) == 1 and dotted(rets[0][1]) == "default_code_filter" and m.cls is dc, "R-C17.3", m.fq,
              "DefaultConfig.code_filter returns default_code_filter", construct="; ".join(norm(n.ast) for n, _ in rets))


def rule_forwarding(ctx: Ctx, repo: Repo) -> None:
    ci = repo.cls(M, "CallTracer")
    ok, why = attr_is_param(repo, ci, "should_trace", "code_filter")
    ctx.check(ok, "R-C17.4", ci.fq, "CallTracer.should_trace is the constructor's code_filter parameter, stored once", construct=why)
    init = repo.method(ci, "__init__")
    tc = repo.fn(M, "trace_calls")
    for caller, call, callee in [s for s in call_sites(repo, lambda c: c is init) if s[0] is tc]:
        a = bound_argument(callee, call, "code_filter")
        ctx.check(a is not None and dotted(a) == "code_filter", "R-C17.4", caller.fq, "trace_calls forwards its code_filter to the tracer", construct=norm(call), node=call)
    sites = call_sites(repo, lambda c: c is tc)
    ctx.floor("R-C17.4", "call of trace_calls", len(sites), 1)
    for caller, call, callee in sites:
        a = bound_argument(callee, call, "code_filter")
        okk = a is not None and isinstance(a, ast.Call) and isinstance(a.func, ast.Attribute) and a.func.attr == "code_filter" and not a.args
        ctx.check(okk, "R-C17.4", caller.fq, "trace() passes config.code_filter() to trace_calls", construct=norm(call), node=call)
        a = bound_argument(callee, call, "logger")
        okk = a is not None and isinstance(a, ast.Call) and isinstance(a.func, ast.Attribute) and a.func.attr == "trace_logger" and not a.args
        ctx.check(okk, "R-C17.4", caller.fq, "trace() passes config.trace_logger() to trace_calls", construct=norm(call), node=call)
    cfgc = repo.cls("monkeytype.config", "Config")
    tl = repo.method(cfgc, "trace_logger")
    rets = returns_of(tl)
    ctx.check(len(rets) == 1 and is_call_to(rets[0][1], "CallTraceStoreLogger"), "R-C17.4", tl.fq,
              "the default trace logger is the store logger (which drops __main__)", construct="; ".join(norm(n.ast) for n, _ in rets))


def run(ctx: Ctx, repo: Repo, tier: str) -> None:
    ctx.trust(*TRUSTED)
    ctx.trust("pathlib: a.relative_to(b) raises ValueError unless a is b or below b; Path.resolve() makes the path absolute and resolves symlinks")
    rule_filter_gate(ctx, repo)
    rule_main_gate(ctx, repo)
    rule_default_filter(ctx, repo)
    rule_forwarding(ctx, repo)
