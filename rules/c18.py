"""C18 - sampling thins traces without distorting them (static clauses).

R-C18.1  the draw is a uniform 1-in-N gate placed before any effect; unset rate => no draw, always trace
R-C18.2  the draw influences nothing but the gate
R-C18.3  frames without an in-flight trace are ignored at return (checked with C02's table too)
R-C18.4  a trace is only ever started at the *first entry* of a frame (never at a resumption)
R-C18.5  the rate is forwarded unchanged Config.sample_rate() -> trace() -> trace_calls -> CallTracer
"""
from __future__ import annotations

import ast
from typing import Any, Dict, List, Tuple

from mtsa.absint import K, R, S, U, V
from mtsa.index import Repo, dotted, norm
from mtsa.report import AnalysisError, Ctx

from .common import attr_is_param, bound_argument, call_sites, cfg_of, is_call_to, returns_of, block_entry
from .tracer_model import TRUSTED, TracerScenario, corpus_points, frame_value, relevant

LEVEL = "other"
EXPLANATION = (
    "Static decision of the structural clauses of C18: CallTracer.handle_call is interpreted abstractly for every "
    "(call-event point of the compiled corpus: first entry or resumption after yield/yield from/await) x sample rate "
    "{unset, 1, 3} x every value of the draw x {function resolvable or not} x {frame already traced or not}. The rules "
    "require: no draw and always a trace when the rate is unset; exactly one draw uniform over N values of which exactly "
    "one opens the gate; nothing but the draw happens on the skip path (no write to self.traces / self.cache, no type "
    "collection); a trace is created only at the first entry of a frame, never when a generator or coroutine is resumed; "
    "the draw does not flow into the recorded trace; handle_return ignores frames without an in-flight trace; the rate is "
    "forwarded unchanged from Config.sample_rate(). Not decided: the traced fraction on real runs (a statistic)."
)

M = "monkeytype.tracing"


def rule_gate(ctx: Ctx, repo: Repo) -> None:
    _, call_points = corpus_points()
    fi = repo.method(repo.cls(M, "CallTracer"), "handle_call")
    ctx.functions.add(fi.fq)
    w = fi.fq
    fparam = fi.positional_params()[1]
    locs = R("dict", items=((K("x"), S("val:x")), (K("y"), S("val:y")), (K("i"), S("val:i"))))
    n_entry = n_resume = 0
    reference: Dict[Any, Any] = {}
    for p in call_points:
        n_entry += p.kind == "entry"
        n_resume += p.kind == "resume"
        for rate in ((None, 1, 2, 3, 5) if TIER == "thorough" else (None, 1, 3)):
            draws = [None] if rate is None else list(range(rate))
            for func in (S("func"), K(None)):
                for in_traces in (False, True):
                    created_for: List[int] = []
                    for draw in draws:
                        sc = TracerScenario(
                            repo, "handle_call", {"sample_rate": K(rate)},
                            trace_in_table=R("trace", id=K("in-flight")) if in_traces else K(None),
                            func_value=func, draw=K(draw) if draw is not None else None, cache_hit=False,
                        )
                        outs = sc.run({fparam: frame_value(p, f_locals=locs)})
                        if len(outs) != 1:
                            raise AnalysisError(f"handle_call: {len(outs)} outcomes for one scenario")
                        effs = relevant(outs[0].effects)
                        dr = [e for e in effs if e[0] == "draw"]
                        rs = [e for e in effs if e[0] == "rng-state"]
                        ctx.check(not rs, "R-C18.1", w,
                                  "the generator's state is neither saved/restored nor re-seeded around the draw (successive draws must be independent; a restored state repeats the same draw for every call)",
                                  construct=f"{sorted(set(e[1] for e in rs))}", scenario=f"{p.label()} rate={rate}")
                        stores = [e for e in effs if e[0] == "setitem" and e[1] == "self.traces"]
                        others = [e for e in effs if e[0] not in ("draw", "rng-state")]
                        lab = f"{p.label()} rate={rate} draw={draw} func={'yes' if isinstance(func, S) else 'None'} traced={in_traces}"
                        if rate is None:
                            ctx.check(not dr, "R-C18.1", w, "no sampling draw when the rate is unset",
                                      construct=f"rate unset: draw {[d[1] for d in dr]}", scenario=lab)
                        else:
                            ok = len(dr) <= 1 and all(d[1] in ("random.randrange", "own.randrange") and d[2] == (K(rate),) for d in dr)
                            if dr:
                                # the draw comes from a generator the traced program cannot reach: a program that seeds or
                                # consumes the global generator (random.seed(0) at the top of a request handler) would otherwise
                                # decide which calls are sampled - e.g. none, or all of them
                                ctx.check(all(d[1].startswith("own.") for d in dr), "R-C18.6", w,
                                          "the sampling draw is independent of the traced program's use of the global random generator (the tracer draws from a generator of its own)",
                                          construct="random.randrange(self.sample_rate) draws from the module-level generator the traced program shares" if any(not d[1].startswith("own.") for d in dr) else "own generator",
                                          scenario=lab)
                            ctx.check(ok, "R-C18.1", w, "at most one draw per call event, uniform over range(rate)",
                                      construct=f"draws {[(d[1], d[2]) for d in dr]}", scenario=lab)
                        if stores:
                            created_for.append(-1 if draw is None else draw)
                            tr = stores[0][3]
                            ref = reference.setdefault((id(p), repr(func), in_traces), tr)
                            ctx.check(tr == ref, "R-C18.2", w,
                                      "the recorded trace is the same whatever the rate and the draw (the draw only gates)",
                                      construct=f"rate={rate} draw={draw}: {tr} differs from {ref}")
                        else:
                            # skip path: nothing but the draw (and, at most, the function lookup once the gate is open)
                            gate_open = rate is None or (rate is not None and draw == 0)
                            if not gate_open or p.kind == "resume":
                                ctx.check(not [e for e in others if e[0] in ("setitem", "get_type", "CallTrace", "delitem")],
                                          "R-C18.1", w, "an unsampled (or resumed) call leaves no residue and collects no types",
                                          construct=f"skip path effects {[e[0] for e in others]}", scenario=lab)
                        if p.kind == "resume":
                            ctx.check(not stores, "R-C18.4", w,
                                      "no trace is started when a generator/coroutine frame is resumed",
                                      construct=f"resumption after `{p.src.strip().splitlines()[1].strip()}`: trace created (rate={rate}, draw={draw}, already traced={in_traces})",
                                      scenario=lab)
                    # per (point, rate, func, in_traces): how many draw values created a trace
                    should = p.kind == "entry" and isinstance(func, S) and not in_traces
                    if rate is None:
                        ctx.check((len(created_for) == 1) == should, "R-C18.1", w,
                                  "rate unset: every first entry of a resolvable, untraced frame is traced",
                                  construct=f"{p.kind} rate=None func={'yes' if isinstance(func, S) else 'None'} traced={in_traces}: created={len(created_for)}")
                    else:
                        want = 1 if should else 0
                        ctx.check(len(created_for) == want, "R-C18.1", w,
                                  f"exactly one of the {rate} equally likely draws opens the gate (rate 1 traces every call)",
                                  construct=f"{p.kind} rate={rate} func={'yes' if isinstance(func, S) else 'None'} traced={in_traces}: {len(created_for)} of {rate} draws create a trace")
    ctx.floor("R-C18.4", "first-entry call points in corpus", n_entry, 10)
    ctx.floor("R-C18.4", "resumption call points in corpus", n_resume, 8)


def rule_return_ignores_untracked(ctx: Ctx, repo: Repo) -> None:
    ret_points, _ = corpus_points()
    fi = repo.method(repo.cls(M, "CallTracer"), "handle_return")
    ctx.functions.add(fi.fq)
    ps = fi.positional_params()
    for p in ret_points:
        sc = TracerScenario(repo, "handle_return", {}, trace_in_table=K(None))
        outs = sc.run({ps[1]: frame_value(p), ps[2]: S("arg")})
        effs = [e for o in outs for e in relevant(o.effects) if e[0] not in ("get_type",)]
        ctx.check(not effs, "R-C18.3", fi.fq, f"an unsampled frame is ignored at its {p.kind} event",
                  construct=f"untracked {p.kind}@{p.opname}: {[e[0] for e in effs]}")


def rule_sampled_trace_is_complete(ctx: Ctx, repo: Repo) -> None:
    """R-C18.7: sampling decides whether a CALL is traced, nothing else: at every exit point of a frame whose call was
    sampled, handle_return does exactly what it does without sampling - for every sample rate, whatever a draw would give,
    whether or not the trace already holds a yield type - and never consults the random generator."""
    from .c02 import _trace
    ret_points, _ = corpus_points()
    fi = repo.method(repo.cls(M, "CallTracer"), "handle_return")
    ctx.functions.add(fi.fq)
    ps = fi.positional_params()
    n = 0
    for p in ret_points:
        for yielded in (False, True):
            base = None
            for rate, draw in ((None, None), (1, 0), (3, 0), (3, 1), (3, 2), (1000, 999)):
                sc = TracerScenario(repo, "handle_return", {"sample_rate": K(rate)}, trace_in_table=_trace(yielded), draw=K(draw) if draw is not None else None)
                outs = sc.run({ps[1]: frame_value(p), ps[2]: S("arg")})
                if len(outs) != 1:
                    raise AnalysisError(f"handle_return: {len(outs)} outcomes at {p.label()} with sample rate {rate}")
                effs = [e for e in relevant(outs[0].effects)]
                draws = [e for e in effs if e[0] in ("draw", "rng-state")]
                n += 1
                ctx.check(not draws, "R-C18.7", fi.fq, "recording what a sampled call returns or yields never consults the random generator",
                          construct=f"{p.label()}, sample rate {rate}: {[e[1] for e in draws]}")
                key = [repr(e) for e in effs if e[0] not in ("draw", "rng-state")]
                if base is None:
                    base = key
                else:
                    ctx.check(key == base, "R-C18.7", fi.fq,
                              "every exit event of a sampled call is recorded exactly as it is without sampling (every yield contributes to the yield type, the return type is set, the trace is logged)",
                              construct=f"{p.label()}, {'a yield type already recorded' if yielded else 'first event of the trace'}, sample rate {rate} and a draw of {draw}: {[e[0] for e in effs]} instead of {[k.split(',')[0] for k in base]}")
    ctx.floor("R-C18.7", "exit point x trace state x sampling scenarios of handle_return", n, 200)


def rule_generator_seed(ctx: Ctx, repo: Repo) -> None:
    """R-C18.8: in the shipped configuration every tracing block draws its sampling decisions from a generator seeded from the
    operating system's entropy.  `with monkeytype.trace(DefaultConfig()): ...` is interpreted twice in a row with real
    configuration, logger and tracer objects: each block builds a new tracer, hence a new generator; were every one of
    them built from the same seed (a constant default handed down from the configuration), every block would make the
    same sequence of decisions - the k-th call of every block always or never traced - which is not "about one in N"."""
    from .blocks_model import ConfiguredBlock
    tr = repo.fn("monkeytype", "trace")
    ctx.functions.add(tr.fq)
    sc = ConfiguredBlock(repo, "with trace(CONFIG):\n    EVENTS('first block')\nwith trace(CONFIG):\n    EVENTS('second block')\n")
    o = sc.run()
    ctx.check(o.term is None or o.term[0] == "return", "R-C18.8", tr.fq, "two tracing blocks of the default configuration run to their end", construct=f"{o.term}")
    ctx.floor("R-C18.8", "generators built by the tracers of two successive blocks", len(sc.rng_seeds), 2)
    for i, (ctor, pos, kws) in enumerate(sc.rng_seeds):
        given = [a for a in pos] + [v for _, v in kws]
        unseeded = ctor.endswith("SystemRandom") or not given or all(a == K(None) for a in given)
        ctx.check(unseeded, "R-C18.8", f"{M}.CallTracer.__init__",
                  "the generator a tracer samples with is seeded from the operating system (no seed, or None) in the shipped configuration",
                  construct=f"block {i + 1}: {ctor}({', '.join(str(getattr(a, 'v', a)) for a in given)}) - the same seed for every tracing block")
    # and the blocks themselves: each one hands its own trace to the store, once
    ctx.check(len(sc.stored) == 2 and all(isinstance(b, R) and b.kind == "list" and len(b.fields["items"]) == 1 for b in sc.stored), "R-C18.8", tr.fq,
              "with sampling unset every call of a block reaches the store exactly once, when the block ends", construct=f"{[str(b)[:80] for b in sc.stored]}")


def rule_rate_one_traces_all(ctx: Ctx, repo: Repo) -> None:
    """R-C18.9: "all of them when the rate is unset or 1" - exact clauses, whatever the sampling algorithm is.  A tracing block with
    a real tracer object sees eight calls in a row; the tracer's own generator is scripted adversarially (every randrange(n)
    answers 0 / n-1 / alternates / counts up): with the rate unset or 1 every call is logged; and with any rate a call that is
    logged is logged once."""
    from .blocks_model import BlocksScenario
    tc = block_entry(repo)
    ctx.functions.add(tc.fq)
    scripts = {"always 0": lambda b, k: 0, "always the largest value": lambda b, k: b - 1, "alternating": lambda b, k: (b - 1) if k % 2 else 0, "counting up": lambda b, k: k % b}
    n = 0
    for rate in (None, 1):
        for sname, script in scripts.items():
            body = f"with trace_calls(L1, 0, None, {rate}):\n" + "".join(f"    EVENTS('call {i}')\n" for i in range(8))
            sc = BlocksScenario(repo, body)
            sc.draw = script
            o = sc.run()
            n += 1
            tags = []
            for lname, tr in sc.logged:
                at = tr.fields.get("arg_types") if isinstance(tr, R) else None
                tags += [x.fields["of"].fields["tag"].v for _, x in (at.fields["items"] if isinstance(at, R) and at.kind == "dict" else ()) if isinstance(x, R) and x.kind == "typeof"]
            ctx.check((o.term is None or o.term[0] == "return") and tags == [f"call {i}" for i in range(8)], "R-C18.9", f"{M}.CallTracer.handle_call",
                      "with the sample rate unset or 1 every call is traced, whatever the tracer's random generator answers",
                      construct=f"sample rate {rate}, generator answers {sname}: {len(tags)} of 8 calls logged ({tags})")
    ctx.floor("R-C18.9", "rate x generator-script scenarios of eight calls", n, 8)


def rule_forwarding(ctx: Ctx, repo: Repo) -> None:
    ci = repo.cls(M, "CallTracer")
    ok, why = attr_is_param(repo, ci, "sample_rate", "sample_rate")
    ctx.check(ok, "R-C18.5", ci.fq, "CallTracer.sample_rate is the constructor's sample_rate parameter, stored once", construct=why)
    init = repo.method(ci, "__init__")
    d = init.defaults().get("sample_rate")
    ctx.check(d is not None and isinstance(d, ast.Constant) and d.value is None, "R-C18.5", init.fq,
              "the tracer's default sample rate is None (trace everything)", construct=f"default {norm(d)}")
    from . import glue_model as GM
    GM.check_tracer_forwarding(ctx, repo, "R-C18.5", "sample_rate", "sample_rate", "trace_calls forwards its sample_rate to the tracer")
    GM.check_forwarding(ctx, repo, "R-C18.5", "sample_rate", "sample_rate", "trace() passes config.sample_rate() to trace_calls")
    cfgc = repo.cls("monkeytype.config", "Config")
    for c in [cfgc] + repo.subclasses(cfgc):
        m = c.methods.get("sample_rate")
        if m is None:
            continue
        ctx.functions.add(m.fq)
        rets = returns_of(m)
        ctx.check(len(rets) == 1 and rets[0][1] is not None and isinstance(rets[0][1], ast.Constant) and rets[0][1].value is None,
                  "R-C18.5", m.fq, "shipped configurations do not sample (rate None)", construct=norm(m.node.body[-1]))


TIER = "quick"


def run(ctx: Ctx, repo: Repo, tier: str) -> None:
    global TIER
    TIER = tier
    ctx.trust(*TRUSTED)
    ctx.trust("random.randrange(n) is uniform over range(n)")
    ctx.attempt(rule_gate, ctx, repo)
    ctx.attempt(rule_return_ignores_untracked, ctx, repo)
    ctx.attempt(rule_sampled_trace_is_complete, ctx, repo)
    ctx.attempt(rule_generator_seed, ctx, repo)
    ctx.attempt(rule_rate_one_traces_all, ctx, repo)
    ctx.attempt(rule_forwarding, ctx, repo)
    ctx.settle()
