"""Interprocedural taint / effect analysis: which operations of the package are applied to
*program values* (objects of the traced program) and can dispatch into user-defined code.

Levels   NONE < CONT < VAL
  VAL    a program value (anything the traced program created)
  CONT   an interpreter-owned container/iterator whose *elements* are program values
         (frame.f_locals, frame.f_globals, their views, generators over them)
Flow-insensitive per function, context-insensitive across calls, fixpoint over the call graph.
"""
from __future__ import annotations

import ast
from typing import Any, Callable, Dict, Iterable, List, Optional, Set, Tuple

from .cfg import CFG
from .index import FunctionInfo, Repo, bind_args, dotted, norm, walk_no_nested

NONE, CONT, VAL = 0, 1, 2

FRAME_CONTAINERS = {"f_locals", "f_globals", "f_builtins"}
CONTAINER_VIEW_METHODS = {"keys", "values", "items"}
PASSTHROUGH_CALLS = {"cast", "typing.cast"}
STATIC_GETTERS = {"inspect.getattr_static", "getattr_static"}


class Taint:
    def __init__(self, repo: Repo, seeds: Dict[str, Dict[str, int]], scope: Optional[Callable[[FunctionInfo], bool]] = None) -> None:
        self.repo = repo
        self.params: Dict[str, Dict[str, int]] = {k: dict(v) for k, v in seeds.items()}
        self.locals: Dict[str, Dict[str, int]] = {}
        self.returns: Dict[str, int] = {}
        self.fns: Dict[str, FunctionInfo] = {}
        self.scope = scope or (lambda fi: True)
        self.callers: Dict[str, Set[str]] = {}
        self.attrs: Dict[Tuple[str, str], int] = {}  # (class, attribute) -> level of what is stored there
        self._cur: Optional[FunctionInfo] = None
        work = []
        for fq in seeds:
            fi = self._lookup(fq)
            self.fns[fq] = fi
            work.append(fq)
        rounds = 0
        while work:
            rounds += 1
            if rounds > 5000:
                raise RuntimeError("taint fixpoint did not converge")
            fq = work.pop()
            changed_callees, ret_changed = self._analyse(self.fns[fq])
            for c in changed_callees:
                if c not in work:
                    work.append(c)
            if ret_changed:
                for c in self.callers.get(fq, ()):
                    if c not in work:
                        work.append(c)

    def _lookup(self, fq: str) -> FunctionInfo:
        for m in sorted(self.repo.modules, key=len, reverse=True):
            if fq.startswith(m + "."):
                q = fq[len(m) + 1:]
                if q in self.repo.modules[m].functions:
                    return self.repo.modules[m].functions[q]
        raise KeyError(fq)

    # -- per function -------------------------------------------------------------
    def _analyse(self, fi: FunctionInfo) -> Tuple[Set[str], bool]:
        fq = fi.fq
        loc = self.locals.setdefault(fq, {})
        for p, lv in self.params.get(fq, {}).items():
            loc[p] = max(loc.get(p, NONE), lv)
        changed_callees: Set[str] = set()
        self._cur = fi
        self._changed_callees = changed_callees
        stable = False
        ret = self.returns.get(fq, NONE)
        n = 0
        while not stable:
            n += 1
            if n > 50:
                break
            stable = True
            for x in walk_no_nested(fi.node):
                if isinstance(x, ast.Assign):
                    lv = self.level(x.value)
                    for t in x.targets:
                        stable &= not self._bind(t, lv, loc)
                elif isinstance(x, ast.AnnAssign) and x.value is not None:
                    stable &= not self._bind(x.target, self.level(x.value), loc)
                elif isinstance(x, ast.AugAssign):
                    stable &= not self._bind(x.target, self.level(x.value), loc)
                elif isinstance(x, ast.NamedExpr):
                    stable &= not self._bind(x.target, self.level(x.value), loc)
                elif isinstance(x, (ast.For, ast.AsyncFor)):
                    lv = self.level(x.iter)
                    stable &= not self._bind(x.target, VAL if lv >= CONT else NONE, loc)
                elif isinstance(x, ast.comprehension):
                    lv = self.level(x.iter)
                    stable &= not self._bind(x.target, VAL if lv >= CONT else NONE, loc)
                elif isinstance(x, ast.Return) and x.value is not None:
                    ret = max(ret, self.level(x.value))
                elif isinstance(x, ast.Yield) and x.value is not None:
                    if self.level(x.value) >= VAL:
                        ret = max(ret, CONT)
                elif isinstance(x, ast.YieldFrom):
                    if self.level(x.value) >= CONT:
                        ret = max(ret, CONT)
                elif isinstance(x, ast.Call):
                    self.level(x)  # propagates into callees
        ret_changed = ret != self.returns.get(fq, NONE)
        self.returns[fq] = ret
        return changed_callees, ret_changed

    def _bind(self, t: ast.AST, lv: int, loc: Dict[str, int]) -> bool:
        ch = False
        if isinstance(t, ast.Name):
            if lv > loc.get(t.id, NONE):
                loc[t.id] = lv
                ch = True
        elif isinstance(t, (ast.Tuple, ast.List)):
            for e in t.elts:
                ch |= self._bind(e, lv, loc)
        elif isinstance(t, ast.Starred):
            ch |= self._bind(t.value, lv, loc)
        elif isinstance(t, ast.Attribute) and isinstance(t.value, ast.Name) and t.value.id == "self":
            ch |= self._bind_attr(t.attr, lv)
        elif isinstance(t, ast.Subscript) and isinstance(t.value, ast.Attribute) and isinstance(t.value.value, ast.Name) and t.value.value.id == "self":
            # self.table[key] = <program value>  =>  self.table is a container of program values
            ch |= self._bind_attr(t.value.attr, CONT if lv >= VAL else NONE)
        return ch

    def _bind_attr(self, attr: str, lv: int) -> bool:
        cls = self._cur.cls.fq if self._cur is not None and self._cur.cls is not None else "?"
        if lv > self.attrs.get((cls, attr), NONE):
            self.attrs[(cls, attr)] = lv
            # every method of the class may read it
            for fq, fi in self.fns.items():
                if fi.cls is not None and fi.cls.fq == cls:
                    self._changed_callees.add(fq)
            return True
        return False

    def level(self, e: Optional[ast.AST], fi: Optional[FunctionInfo] = None) -> int:
        if e is None:
            return NONE
        fi = fi or self._cur
        assert fi is not None
        loc = self.locals.get(fi.fq, {})
        if isinstance(e, ast.Name):
            return loc.get(e.id, NONE)
        if isinstance(e, ast.Attribute):
            if e.attr in FRAME_CONTAINERS:
                return CONT
            if isinstance(e.value, ast.Name) and e.value.id == "self" and fi.cls is not None:
                return self.attrs.get((fi.cls.fq, e.attr), NONE)
            base = self.level(e.value, fi)
            if base == VAL:
                return VAL
            return NONE
        if isinstance(e, ast.Subscript):
            base = self.level(e.value, fi)
            return VAL if base >= CONT else NONE
        if isinstance(e, ast.Starred):
            return self.level(e.value, fi)
        if isinstance(e, (ast.IfExp,)):
            return max(self.level(e.body, fi), self.level(e.orelse, fi))
        if isinstance(e, ast.BoolOp):
            return max(self.level(v, fi) for v in e.values)
        if isinstance(e, ast.NamedExpr):
            return self.level(e.value, fi)
        if isinstance(e, (ast.GeneratorExp, ast.ListComp, ast.SetComp)):
            return CONT if self.level(e.elt, fi) >= VAL else NONE
        if isinstance(e, (ast.Tuple, ast.List, ast.Set)):
            return CONT if any(self.level(x, fi) >= VAL for x in e.elts) else NONE
        if isinstance(e, ast.Await):
            return self.level(e.value, fi)
        if isinstance(e, ast.Call):
            d = dotted(e.func) or ""
            if d == "type" and len(e.args) == 1:
                return NONE
            if d in PASSTHROUGH_CALLS and len(e.args) == 2:
                return self.level(e.args[1], fi)
            if d in STATIC_GETTERS or d.endswith(".getattr_static"):
                return VAL if e.args and self.level(e.args[0], fi) >= VAL else NONE
            if d == "getattr":
                return VAL if e.args and self.level(e.args[0], fi) >= VAL else NONE
            if d in ("iter", "list", "tuple", "set", "frozenset", "sorted", "reversed", "enumerate", "zip") and e.args:
                return CONT if any(self.level(a, fi) >= CONT for a in e.args) else NONE
            if d == "next" and e.args:
                return VAL if self.level(e.args[0], fi) >= CONT else NONE
            if isinstance(e.func, ast.Attribute):
                base = self.level(e.func.value, fi)
                if base >= CONT and e.func.attr in ("get", "pop", "setdefault", "__getitem__"):
                    return VAL
                if base >= CONT and e.func.attr in CONTAINER_VIEW_METHODS | {"copy", "__iter__"}:
                    return CONT
            callee = self.repo.resolve_callee(fi, e)
            if callee is not None and self.scope(callee):
                self.fns.setdefault(callee.fq, callee)
                self.callers.setdefault(callee.fq, set()).add(fi.fq)
                skip_self = callee.cls is not None and "staticmethod" not in callee.decorators()
                bound = bind_args(callee, e, skip_self=skip_self)
                cp = self.params.setdefault(callee.fq, {})
                for p, a in bound.items():
                    lv = self.level(a, fi)
                    if p.startswith("*"):
                        continue
                    if lv > cp.get(p, NONE):
                        cp[p] = lv
                        self._changed_callees.add(callee.fq)
                if callee.fq not in self.locals:
                    self._changed_callees.add(callee.fq)
                    self.locals[callee.fq] = {}
                # a constructor returns an object holding the values: not itself a program value
                if callee.qualname.endswith(".__init__"):
                    return NONE
                return self.returns.get(callee.fq, NONE)
            return NONE
        return NONE
