"""Witness (run by hand): the `cls` of `__new__` gets annotated (`cls: Type[C]`) - the receiver parameter of a method.
    cd /verif/witness && PYTHONPATH=/repo /venv/bin/python c12_new_receiver.py      (exit 1 while the defect is present)"""
import sys, tempfile
d = tempfile.mkdtemp(); sys.path.insert(0, d)
open(d + "/wnew.py", "w").write("class C:\n    def __new__(cls, x):\n        return super().__new__(cls)\n")
import wnew
from typing import Type
from monkeytype.tracing import CallTrace
from monkeytype.stubs import build_module_stubs_from_traces
txt = build_module_stubs_from_traces([CallTrace(wnew.C.__new__, {"cls": Type[wnew.C], "x": int}, wnew.C)], 0)["wnew"].render()
print(txt)
bad = "cls:" in txt
print("WITNESSED: the receiver of __new__ is annotated" if bad else "not present")
sys.exit(1 if bad else 0)
