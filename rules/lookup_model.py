"""The function look-up of the tracer, interpreted in a world of program objects.

`get_func(frame)` (with everything it calls in monkeytype/tracing.py inlined, however it is split into helpers, tables of
strategies or helper objects) is interpreted on frames whose globals, locals, first argument and caller frames hold model
objects of the traced program:

  pfunc   a function object: __code__ (a code record, compared by identity), optionally __wrapped__ (a decorator chain)
  pdesc   an instance of exactly classmethod / staticmethod / property / cached_property wrapping a pfunc
  pclass  a class with a table of RAW attributes (what inspect.getattr_static finds)
  pinst   an instance of a pclass
  hostile an object of a user class that defines attribute hooks (__getattr__/__getattribute__), a `__class__` property,
          __bool__/__eq__/__hash__ ...: EVERY operation on it that dispatches to its class is user code running

What is read off: (a) the value returned - None or a function whose __code__ IS the frame's code object (attribution); (b) the
operations performed on hostile objects ("touches").  Hook-free by CPython's data model: `is`, type(x), id(x), callable(x),
inspect.getattr_static, issubclass() on a class obtained with type(), reading an attribute of an exact builtin descriptor
instance."""
from __future__ import annotations

import ast
from typing import Any, Callable, Dict, List, Optional, Tuple

from mtsa.absint import K, R, Ref, S, U, V, State
from mtsa.index import FunctionInfo, Repo, dotted, norm
from mtsa.report import AnalysisError

from .common import RepoInterp

M = "monkeytype.tracing"
DESC_TYPES = ("classmethod", "staticmethod", "property", "cached_property")


def code(ident: str, name: str = "f", argcount: int = 1, varnames: Tuple[str, ...] = ("self", "x")) -> R:
    return R("code", ident=K(ident), co_name=K(name), co_argcount=K(argcount), co_kwonlyargcount=K(0), co_varnames=K(tuple(K(v) for v in varnames)),
             co_filename=K("/src/app.py"), co_flags=K(3))


def pfunc(ident: str, co: R, wrapped: Optional[R] = None) -> R:
    f: Dict[str, Any] = dict(ident=K(ident), code=co)
    if wrapped is not None:
        f["wrapped"] = wrapped
    return R("pfunc", **f)


def pdesc(kind: str, fn: V, fset: V = K(None), fdel: V = K(None)) -> R:
    return R("pdesc", type=K(kind), fn=fn, fset=fset, fdel=fdel)


def pclass(ident: str, raw: Dict[str, V]) -> R:
    return R("pclass", ident=K(ident), raw=R("dict", items=tuple((K(k), v) for k, v in raw.items())))


def pinst(ident: str, cls_: R) -> R:
    return R("pinst", ident=K(ident), cls=cls_)


def hostile(ident: str, callable_: bool = True, endless: bool = False) -> R:
    return R("hostile", ident=K(ident), callable=K(callable_), endless=K(endless))


def frame(co: R, f_globals: Dict[str, V], f_locals: Dict[str, V], back: Optional[R] = None) -> R:
    return R("frame", f_code=co, f_globals=R("dict", items=tuple((K(k), v) for k, v in f_globals.items())),
             f_locals=R("dict", items=tuple((K(k), v) for k, v in f_locals.items())), f_back=back if back is not None else K(None), f_lasti=K(0))


class LookupScenario:
    def __init__(self, repo: Repo, entry: str = "get_func") -> None:
        self.repo = repo
        self.fi = repo.fn(M, entry)
        mod = repo.module(M)
        inline = {f.fq for f in mod.functions.values()}
        for um in ("monkeytype.util", "monkeytype.compat"):
            if um in repo.modules:
                inline |= {f.fq for f in repo.modules[um].functions.values()}
        self.ri = RepoInterp(repo, self.fi, inline=inline, call_hook=self.hook, may_fork=(), heap=True, max_depth=40)
        self.ri.construct_instances = True
        self.ri.dispatch_instances = True
        self.touches: List[Tuple[str, str, str, Optional[ast.AST], Optional[FunctionInfo]]] = []  # (object, operation, where, node, function)
        base_attr = self.ri.on_attr
        self._base_attr = base_attr
        self.ri.on_attr = self.on_attr  # type: ignore[method-assign]
        self.ri.interp.on_attr = self.on_attr
        base_truth = self.ri.interp._value_truth

        def value_truth(e: ast.AST, v: V, st: State) -> Optional[bool]:
            if isinstance(v, R) and v.kind == "hostile":
                self.touch(v, "truth-value test (__bool__/__len__)", e)
                return True
            if isinstance(v, R) and v.kind in ("pfunc", "pdesc", "pclass", "pinst", "code", "frame", "ptype"):
                return True
            return base_truth(e, v, st)
        self.ri.interp._value_truth = value_truth  # type: ignore[method-assign]
        base_cmp = self.ri.interp._compare

        def compare(op: ast.cmpop, a: V, b: V) -> Optional[bool]:
            if isinstance(op, (ast.Eq, ast.NotEq, ast.In, ast.NotIn, ast.Lt, ast.Gt, ast.LtE, ast.GtE)):
                for x in (a, b):
                    if isinstance(x, R) and x.kind == "hostile":
                        self.touch(x, "comparison / membership test (__eq__/__hash__)", None)
            return base_cmp(op, a, b)
        self.ri.interp._compare = compare  # type: ignore[method-assign]

    # ------------------------------------------------------------------
    def touch(self, obj: R, how: str, node: Optional[ast.AST]) -> None:
        self.touches.append((obj.fields["ident"].v, how, self.ri.cur_fi.fq if self.ri.cur_fi is not None else "?", node, self.ri.cur_fi))

    @staticmethod
    def _hostile_answer(obj: R, attr: str) -> V:
        """what the hook answers: some object of its own for __code__ (never the frame's code), nothing for the rest - the
        answers are irrelevant to the rule, which is about the hook having run"""
        if attr == "__code__":
            return R("opaque", ident=K(f"{obj.fields['ident'].v}.{attr}"))
        if attr == "__wrapped__" and obj.fields.get("endless") == K(True):
            return obj  # a proxy answers with a proxy, for ever (unittest.mock.MagicMock, a lazy-import placeholder)
        return K(None)

    def type_of(self, v: V) -> V:
        if isinstance(v, R) and v.kind == "pfunc":
            return R("ptype", name=K("function"))
        if isinstance(v, R) and v.kind == "pdesc":
            return R("ptype", name=v.fields["type"])
        if isinstance(v, R) and v.kind == "pclass":
            return R("ptype", name=K("type"))
        if isinstance(v, R) and v.kind == "pinst":
            return R("ptype", name=K("class:" + v.fields["cls"].fields["ident"].v))
        if isinstance(v, R) and v.kind == "hostile":
            return R("ptype", name=K("hostileclass:" + v.fields["ident"].v))
        if isinstance(v, K) and v.v is None:
            return R("ptype", name=K("NoneType"))
        if isinstance(v, K):
            return R("ptype", name=K(type(v.v).__name__))
        return R("ptype", name=K("object"))

    @staticmethod
    def _class_names(c: V) -> Optional[List[str]]:
        seq = list(c.v) if isinstance(c, K) and isinstance(c.v, tuple) else [c]
        out = []
        for x in seq:
            if isinstance(x, S):
                out.append(x.name.split(":")[-1].split(".")[-1])
            elif isinstance(x, K) and x.v is None:
                return None  # issubclass(x, None): TypeError in CPython; the source guards cached_property being None
            else:
                return None
        return out

    def _is_kind(self, tname: str, names: List[str]) -> bool:
        table = {"function": {"FunctionType", "LambdaType", "function"}, "classmethod": {"classmethod"}, "staticmethod": {"staticmethod"}, "property": {"property"},
                 "cached_property": {"cached_property"}, "type": {"type"}, "NoneType": {"NoneType"}}
        return bool(table.get(tname, set()) & set(names)) or "object" in names

    def on_attr(self, obj: V, attr: str, node: ast.AST, st: State) -> Optional[V]:
        if isinstance(obj, R) and obj.kind == "hostile":
            self.touch(obj, f"attribute read .{attr} (__getattribute__/__getattr__/descriptors)", node)
            return self._hostile_answer(obj, attr)
        if isinstance(obj, R) and obj.kind == "pfunc":
            if attr == "__code__":
                return obj.fields["code"]
            if attr == "__wrapped__" and "wrapped" in obj.fields:
                return obj if obj.fields["wrapped"] == K("<itself>") else obj.fields["wrapped"]
            if attr in ("__name__", "__qualname__"):
                return obj.fields["code"].fields["co_name"]
            st.pending = st.pending or "AttributeError"
            return U(f"function object has no attribute {attr}")
        if isinstance(obj, R) and obj.kind == "pdesc":
            t = obj.fields["type"].v
            ok = {"classmethod": {"__func__": "fn", "__wrapped__": "fn"}, "staticmethod": {"__func__": "fn", "__wrapped__": "fn"},
                  "property": {"fget": "fn", "fset": "fset", "fdel": "fdel"}, "cached_property": {"func": "fn"}}[t]
            if attr in ok:
                return obj.fields[ok[attr]]
            st.pending = st.pending or "AttributeError"
            return U(f"{t} object has no attribute {attr}")
        if isinstance(obj, R) and obj.kind in ("pclass", "pinst") and attr not in ("__class__",):
            # a plain attribute read on a program object runs the descriptor protocol of whatever the class defines
            self.touches.append((obj.fields["ident"].v, f"attribute read .{attr} on an object of the program (descriptors / __getattr__ of its class)", self.ri.cur_fi.fq, node, self.ri.cur_fi))
            return U("program attribute")
        if isinstance(obj, R) and obj.kind in ("frame", "code") and attr in obj.fields:
            return obj.fields[attr]
        return self._base_attr(obj, attr, node, st)

    def hook(self, call: ast.Call, fname: Optional[str], fval: Optional[V], args: List[V], kwargs: Dict[str, V], st: State) -> Optional[V]:
        d = fname or ""
        meth = call.func.attr if isinstance(call.func, ast.Attribute) else None
        if d == "type" and len(args) == 1 and not kwargs:
            return self.type_of(args[0])
        if d == "iter" and len(args) == 1 and isinstance(args[0], K) and isinstance(args[0].v, tuple):
            return args[0]  # consumed once by the loops of the look-up (single use is R-ITER.1's business)
        if d == "id" and len(args) == 1:
            return R("id", of=args[0])
        if d == "sys.getrecursionlimit" and not args:
            return K(1000)
        if d == "callable" and len(args) == 1:
            a = args[0]
            if isinstance(a, R) and a.kind == "hostile":
                return a.fields["callable"]  # looks at the type's slot: no user code
            return K(isinstance(a, R) and a.kind in ("pfunc", "pclass") or (isinstance(a, R) and a.kind == "pdesc" and a.fields["type"].v in ("classmethod", "staticmethod")))
        if d in ("cast", "typing.cast") and len(args) == 2:
            return args[1]
        if d == "issubclass" and len(args) == 2:
            names = self._class_names(args[1])
            if isinstance(args[0], R) and args[0].kind == "ptype" and names is not None:
                return K(self._is_kind(args[0].fields["name"].v, names))
            if isinstance(args[0], R) and args[0].kind in ("hostile", "pinst", "pfunc", "pdesc"):
                st.pending = st.pending or "TypeError"
                return U("issubclass() arg 1 must be a class")
            return None
        if d == "isinstance" and len(args) == 2:
            names = self._class_names(args[1])
            a = args[0]
            if isinstance(a, R) and a.kind == "hostile":
                self.touch(a, "isinstance() (falls back to the object's __class__ attribute)", call)
                return K(False)
            if names is not None and isinstance(a, (R, K)):
                return K(self._is_kind(self.type_of(a).fields["name"].v, names))
            return None
        if d in ("getattr", "hasattr") and len(args) >= 2 and isinstance(args[1], K):
            a = args[0]
            if isinstance(a, R) and a.kind == "hostile":
                self.touch(a, f"{d}() (__getattribute__/__getattr__/descriptors)", call)
                return self._hostile_answer(a, args[1].v) if d == "getattr" else K(True)
            if isinstance(a, (R,)) and a.kind in ("pclass", "pinst"):
                self.touches.append((a.fields["ident"].v, f"{d}() on an object of the program (descriptors / __getattr__ of its class)", self.ri.cur_fi.fq, call, self.ri.cur_fi))
                return (args[2] if len(args) > 2 else K(None)) if d == "getattr" else K(False)
            before = st.pending
            v = self.on_attr(a, args[1].v, call, st) if isinstance(a, R) else None
            if isinstance(a, K):  # None, a number ...: no such attribute
                v = None
                st.pending = st.pending or "AttributeError"
            if st.pending == "AttributeError" and before is None:
                st.pending = None
                if d == "hasattr":
                    return K(False)
                if len(args) > 2:
                    return args[2]
                st.pending = "AttributeError"
                return U("getattr")
            return K(True) if d == "hasattr" else v
        if d in ("inspect.getattr_static", "getattr_static") and len(args) >= 2 and isinstance(args[1], K):
            a = args[0]
            cls_ = a if isinstance(a, R) and a.kind == "pclass" else (a.fields["cls"] if isinstance(a, R) and a.kind == "pinst" else None)
            if cls_ is not None:
                for k_, v_ in cls_.fields["raw"].fields["items"]:
                    if k_ == args[1]:
                        return v_
            return args[2] if len(args) > 2 else None  # hook-free also on hostile objects: their raw attributes are not modelled (none)
        if meth in ("get",) and isinstance(fval, R) and fval.kind == "dict" and args:
            for k_, v_ in fval.fields["items"]:
                if k_ == args[0]:
                    return v_
            return args[1] if len(args) > 1 else K(None)
        if meth in ("values", "keys", "items") and isinstance(fval, R) and fval.kind == "dict" and not args:
            its = fval.fields["items"]
            return K(tuple(v_ for _, v_ in its) if meth == "values" else tuple(k_ for k_, _ in its) if meth == "keys" else tuple(K((k_, v_)) for k_, v_ in its))
        if (d.startswith("logging.") or meth in ("exception", "error", "warning", "debug", "info")) and not isinstance(fval, R):
            return K(None)
        return None

    def run(self, fr: R) -> Tuple[str, Any]:
        try:
            outs = self.ri.run({self.fi.positional_params()[0]: fr})
        except AnalysisError as e:
            if "does not terminate" in str(e):
                return ("hang", str(e)[:160])
            raise
        if len(outs) != 1:
            raise AnalysisError(f"{self.fi.fq}: {len(outs)} outcomes for one world")
        o = outs[0]
        if o.term is None:
            return ("return", K(None))
        if o.term[0] == "raise":
            return ("raise", str(o.term[1]))
        return ("return", o.freeze(o.term[1]))


# ---------------------------------------------------------------------------------------------------------------------
def worlds() -> List[Tuple[str, R, Optional[R]]]:
    """(description, frame, the function that must be found - or None when nothing resolvable runs in the frame)"""
    out: List[Tuple[str, R, Optional[R]]] = []
    CO = code("CODE", "f", 1, ("self", "x"))
    OTHER = code("OTHER", "f", 1, ("self", "x"))
    target = pfunc("target", CO)
    decoy = pfunc("decoy (same name, another code object)", OTHER)
    deco = pfunc("wrapper", code("WRAP", "wrapper", 0, ()), wrapped=pfunc("wrapper2", code("WRAP2", "wrapper", 0, ()), wrapped=target))
    out.append(("a module-level function bound in globals", frame(CO, {"f": target, "g": decoy}, {"self": K(1)}), target))
    out.append(("a decorated module-level function (two functools.wraps wrappers)", frame(CO, {"f": deco}, {"self": K(1)}), target))
    out.append(("globals bind the name to another function; nothing else holds the code", frame(CO, {"f": decoy}, {"self": K(1)}), None))
    for kind in ("plain", "classmethod", "staticmethod", "property", "property with a setter"):
        raw: V = target
        if kind in ("classmethod", "staticmethod"):
            raw = pdesc(kind, target)
        elif kind == "property":
            raw = pdesc("property", target)
        elif kind == "property with a setter":
            raw = pdesc("property", target, fset=pfunc("setter", OTHER))
        C = pclass("C", {"f": raw, "g": decoy})
        recv: V = C if kind == "classmethod" else pinst("c1", C)
        want = None if kind == "property with a setter" else target
        if kind == "staticmethod":
            # no receiver: found through the classes in globals
            out.append((f"a {kind} of a class in globals", frame(CO, {"C": C, "n": K(3)}, {"self": K(5)}), want))
        else:
            out.append((f"a method of the first argument's class: {kind}", frame(CO, {"C": C}, {"self": recv}), want))
    # the class's attribute of that name is something else (a decoy): not ours
    Cd = pclass("Cd", {"f": decoy})
    out.append(("the first argument's class has another function under the name", frame(CO, {}, {"self": pinst("d1", Cd)}), None))
    # a closure: only a caller's local holds it
    caller = frame(code("CALLER", "outer", 0, ()), {}, {"inner": target, "n": K(1), "other": decoy})
    out.append(("a closure held by a local of the calling frame", frame(CO, {}, {"self": K(1)}, back=caller), target))
    caller2 = frame(code("CALLER2", "outer2", 0, ()), {}, {"k": K(2)}, back=caller)
    out.append(("a closure held two frames up", frame(CO, {}, {"self": K(1)}, back=caller2), target))
    return out


def hostile_worlds() -> List[Tuple[str, R]]:
    """frames in which objects with attribute hooks sit wherever the look-up looks"""
    CO = code("CODE", "f", 1, ("self", "x"))
    target = pfunc("target", CO)
    h = hostile
    out: List[Tuple[str, R]] = []
    out.append(("the global named like the function is an object with attribute hooks; the function is a method of the first argument",
                frame(CO, {"f": h("global named f")}, {"self": pinst("c1", pclass("C", {"f": target}))})))
    out.append(("the first argument is an object with attribute hooks (nothing is found through it)", frame(CO, {"f": target}, {"self": h("first argument")})))
    out.append(("the first argument is hostile and the function is only in a global class", frame(CO, {"C": pclass("C", {"f": pdesc("staticmethod", target)}), "h": h("another global")}, {"self": h("first argument")})))
    out.append(("the raw class attribute of that name is an object with attribute hooks", frame(CO, {}, {"self": pinst("c1", pclass("C", {"f": h("raw class attribute")}))})))
    caller = frame(code("CALLER", "outer", 0, ()), {}, {"helper": h("callable local of the caller"), "data": h("non-callable local of the caller", callable_=False), "inner": target})
    out.append(("locals of the calling frame are objects with attribute hooks", frame(CO, {"unrelated": h("unrelated global")}, {"self": K(1)}, back=caller)))
    return out


def extra_worlds() -> List[Tuple[str, R, Optional[R]]]:
    """decoys placed BEFORE the function in every place that is searched in order"""
    out: List[Tuple[str, R, Optional[R]]] = []
    CO = code("CODE", "f", 1, ("self", "x"))
    OTHER = code("OTHER", "f", 1, ("self", "x"))
    target = pfunc("target", CO)
    decoy = pfunc("decoy (same name, another code object)", OTHER)
    A = pclass("A", {"f": pdesc("staticmethod", decoy)})
    B = pclass("B", {"f": pdesc("staticmethod", target)})
    out.append(("two global classes define a static method of that name; the second one's code runs", frame(CO, {"A": A, "B": B}, {"self": K(5)}), target))
    caller = frame(code("CALLER", "outer", 0, ()), {}, {"older": decoy, "wrapped_other": pfunc("w", code("W", "w", 0, ()), wrapped=decoy), "inner": target})
    out.append(("the calling frame holds an older closure of the same name before the one that runs", frame(CO, {}, {"self": K(1)}, back=caller), target))
    deco_decoy = pfunc("wrapper of the decoy", code("WRAPD", "wrapper", 0, ()), wrapped=decoy)
    C = pclass("C", {"f": target})
    out.append(("globals bind the name to a wrapper around another function; the code is a method of the first argument", frame(CO, {"f": deco_decoy}, {"self": pinst("c1", C)}), target))
    twin = pfunc("twin (another function whose code object is EQUAL to the running one, not the same object)", code("TWIN", "f", 1, ("self", "x")))
    out.append(("globals bind the name to a function with an equal code object (the generated method of a second dataclass); the code that runs is a method of the first argument",
                frame(CO, {"f": twin}, {"self": pinst("c1", C)}), target))
    out.append(("a function without parameters (no first argument to look at)", frame(code("CODE0", "f", 0, ()), {"f": pfunc("t0", code("NOT", "f", 0, ()))}, {}), None))
    return out


def endless_worlds() -> List[Tuple[str, R, Optional[R]]]:
    """`__wrapped__` chains that never reach None: the look-up must give up on them and go on (inspect.unwrap raises ValueError)"""
    CO = code("CODE", "f", 1, ("self", "x"))
    target = pfunc("target", CO)
    C = pclass("C", {"f": target})
    cyc = pfunc("a function that is its own __wrapped__", code("CYC", "f", 0, ()), wrapped=K("<itself>"))  # type: ignore[arg-type]
    return [
        ("the global named like the method is a function whose __wrapped__ is itself; the code runs as a method of the first argument", frame(CO, {"f": cyc}, {"self": pinst("c1", C)}), target),
        ("the global named like the method is a proxy that answers every attribute with a proxy; the code runs as a method of the first argument",
         frame(CO, {"f": hostile("proxy global named f", endless=True)}, {"self": pinst("c1", C)}), target),
    ]


def hostile_chain_world() -> Tuple[str, R]:
    CO = code("CODE", "f", 1, ("self", "x"))
    w = pfunc("wrapper", code("WRAP", "wrapper", 0, ()), wrapped=hostile("__wrapped__ of a global function"))
    return ("the global named like the function is a wrapper whose __wrapped__ is an object with attribute hooks", frame(CO, {"f": w}, {"self": K(1)}))


def lookup_closure(repo: Repo, entry: str = "get_func") -> Tuple[set, set]:
    """(functions, module constants) of monkeytype.tracing that the look-up's source refers to, transitively - the code the
    look-up worlds interpret"""
    mod = repo.module(M)
    fns: set = set()
    consts: set = set()
    todo: List[ast.AST] = [repo.fn(M, entry).node]
    fns.add(repo.fn(M, entry).fq)
    while todo:
        node = todo.pop()
        for x in ast.walk(node):
            name = x.id if isinstance(x, ast.Name) and isinstance(x.ctx, ast.Load) else None
            if name is None:
                continue
            if name in mod.functions and mod.functions[name].cls is None and mod.functions[name].fq not in fns:
                fns.add(mod.functions[name].fq)
                todo.append(mod.functions[name].node)
            elif name in mod.classes:
                ci = mod.classes[name]
                for m in ci.methods.values():
                    if m.fq not in fns:
                        fns.add(m.fq)
                        todo.append(m.node)
                for a, v in ci.attrs.items():
                    if (ci.fq, a) not in consts:
                        consts.add((ci.fq, a))
                        todo.append(v)
            elif name in mod.constants and name not in consts and name not in mod.imports:
                consts.add(name)
                todo.append(mod.constants[name])
    return fns, consts


def attribution_results(repo: Repo) -> List[Tuple[str, Optional[R], str, Any, int]]:
    """(world, wanted function, kind of outcome, value, touches) for every attribution world"""
    out = []
    for what, fr, want in worlds() + extra_worlds():
        sc = LookupScenario(repo)
        k, res = sc.run(fr)
        out.append((what, want, k, res, len(sc.touches)))
    return out


def hostile_results(repo: Repo) -> List[Tuple[str, str, Any, List[Tuple[str, str, str, Optional[ast.AST], Optional[FunctionInfo]]]]]:
    out = []
    for what, fr in hostile_worlds() + [hostile_chain_world()]:
        sc = LookupScenario(repo)
        k, res = sc.run(fr)
        out.append((what, k, res, list(sc.touches)))
    return out


def endless_results(repo: Repo) -> List[Tuple[str, Optional[R], str, Any]]:
    out = []
    for what, fr, want in endless_worlds():
        sc = LookupScenario(repo)
        k, res = sc.run(fr)
        out.append((what, want, k, res))
    return out
