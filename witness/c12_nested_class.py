"""Witness for R-C12.4 nested classes (run by hand: PYTHONPATH=/repo /venv/bin/python witness/c12_nested_class.py; exit 1
while the defect is present): the stub of a module with a traced method of a nested class must parse, hold the method
inside `class Outer: class Inner:`, and apply to the source."""
import ast, os, sys, tempfile, textwrap
d = tempfile.mkdtemp(); sys.path.insert(0, d)
src = textwrap.dedent('''
    class Outer:
        def top(self, a): return a
        class Inner:
            def deep(self, x): return x
            class Core:
                @staticmethod
                def s(y): return y
''')
open(os.path.join(d, "nest_mod.py"), "w").write(src)
import nest_mod
from monkeytype.tracing import CallTrace
from monkeytype.stubs import build_module_stubs_from_traces
from monkeytype import cli
traces = [CallTrace(nest_mod.Outer.Inner.deep, {"self": nest_mod.Outer.Inner, "x": int}, int),
          CallTrace(nest_mod.Outer.top, {"self": nest_mod.Outer, "a": str}, str),
          CallTrace(nest_mod.Outer.Inner.Core.s, {"y": float}, float)]
text = build_module_stubs_from_traces(traces, 0)["nest_mod"].render()
print(text)
try:
    tree = ast.parse(text)
except SyntaxError as e:
    print("WITNESSED: the stub does not parse:", e.text.strip()); sys.exit(1)
outer = [n for n in tree.body if isinstance(n, ast.ClassDef) and n.name == "Outer"][0]
inner = [n for n in outer.body if isinstance(n, ast.ClassDef) and n.name == "Inner"][0]
core = [n for n in inner.body if isinstance(n, ast.ClassDef) and n.name == "Core"][0]
assert [n.name for n in inner.body if isinstance(n, ast.FunctionDef)] == ["deep"] and [n.name for n in core.body if isinstance(n, ast.FunctionDef)] == ["s"]
applied = cli.apply_stub_using_libcst(text, src, False)
print(applied)
assert "def deep(self, x: int) -> int" in applied and "def s(y: float) -> float" in applied and "def top(self, a: str) -> str" in applied
print("OK")
