#!/venv/bin/python
"""Regenerate seeded/README.md from seeded/*/meta.json, notes.md and seeded/MATRIX.json (tools/seed_matrix.py)."""
import glob, json, os, re
V = "/verif/seeded"
mx = json.load(open(f"{V}/MATRIX.json"))
rows = []
for d in sorted(x for x in glob.glob(f"{V}/C*") if os.path.isdir(x)):
    sid = os.path.basename(d)
    meta = json.load(open(f"{d}/meta.json"))
    title = ""
    if os.path.exists(f"{d}/notes.md"):
        for line in open(f"{d}/notes.md"):
            line = line.strip()
            if line.startswith("#"):
                title = re.sub(r"^#+\s*(SEED_[A-Z]\s*[-:—]*\s*)?", "", line)
                break
    before = meta.get("checks_fired", {})
    own = sid.split("-")[0]
    now = mx.get(sid, {})
    own_now = now.get(own)
    others = sorted(p for p, v in now.items() if p != own and v[0] == 1)
    was = "own check" if meta.get("caught_by_own_property_check") else ("another property's check" if meta.get("caught_by_any_check") else "missed")
    rows.append((sid, own, title[:150], was, (own_now[1][:170] if own_now and own_now[0] == 1 else "NOT REPORTED"), ", ".join(others) or "-"))
with open(f"{V}/README.md", "w") as f:
    f.write("# Seeded changes (written by independent sub-agents; each confirmed in a scratch worktree)\n\n")
    f.write("Every directory holds `patch.diff` (applies to /repo HEAD with `git -C /repo apply`), `demo.py` (fails with the change, passes without), "
            "`notes.md` (the agent's account: what it needs to manifest) and `meta.json` (what was confirmed: demonstration without / with the change, the test suite's failing set unchanged, "
            "and which checks fired *at the time the change was first evaluated*). The agents saw only the property's text and a scratch worktree of /repo - nothing of /verif.\n\n"
            "Columns: *first evaluation* = how the machinery of that moment fared (own check / another property's check / missed); *now* = the first report of the property's own check "
            "on today's machinery (`tools/seed_matrix.py`, `selftest/run.py` re-run all of them). Round 1 = suffix A/B, round 2 = C/D (asked for changes that need something specific to manifest), round 3 = E/F (boundary and case-analysis changes, behaviour-changing clean-ups), round 4 = G/H (two cooperating sites, multi-step sequences, faults at one point, unusual input shapes), round 5 = I/J (changes a reviewer would wave through: tidy-ups, small features and performance commits whose violation needs a particular configuration, a falsy class object, a non-NFKC key, nested blocks, a round trip through the store ...), round 6 = K/L (Python semantics a reader skims over: one-shot iterators, shared mutable state, `is` vs `==`, truthiness, `finally`, string prefixes, coarse memo keys, off-by-one; collaborators away from the obvious file), round 7 = M/N (structural changes: a responsibility moved between functions or paths, a fast path whose condition is too wide, hoisted or outliving state, reordered steps, a library call with other edge cases, a wrong-branch shim), rounds 8 and 9 = O and P (six changes each in session 5: same brief as round 4, caches discouraged).\n\n")
    f.write("| change | what it does | first evaluation | now: first report of the property's own check | other checks reporting it |\n|---|---|---|---|---|\n")
    for r in rows:
        f.write(f"| {r[0]} | {r[2].replace('|', '/')} | {r[3]} | {r[4].replace('|', '/')} | {r[5]} |\n")
    n_first = sum(1 for r in rows if r[3] == "own check")
    n_now = sum(1 for r in rows if r[4] != "NOT REPORTED")
    f.write(f"\n{len(rows)} changes; reported by their own property's check at first evaluation: {n_first}; now: {n_now}.\n")
print(len(rows), "rows")
