"""C15 - apply only adds annotations and imports; the program is otherwise untouched (repository-side clauses).

R-C15.1  overwrite only when asked: the overwrite flag is `strategy == IGNORE` and is bound to libcst's parameter of that
         name (binding computed against the installed libcst's signature, read from its source)
R-C15.2  the file is written once, with exactly what the transformer returned, only on success, at the path of the
         module named on the command line, whose own text was the transformer's input
R-C15.3  the source tree is transformed by nothing but ApplyTypeAnnotationsVisitor (and, with --pep_563, the import mover)
"""
from __future__ import annotations

import ast
import os
from typing import Any, Dict, List, Optional, Tuple

from mtsa.absint import K, R, Ref, S, U, V, State
from mtsa.index import Repo, calls_in, dotted, norm, walk_no_nested
from mtsa.report import AnalysisError, Ctx

from .cli_model import CLI, CliScenario
from .common import bound_argument, cfg_of, is_call_to

LEVEL = "other"
EXPLANATION = (
    "Static decision of the repository-side clauses of C15 (the transformation itself is libcst's ApplyTypeAnnotationsVisitor "
    "and is outside this repository): apply_stub_handler is interpreted abstractly for {stub found, no traces} x {transform "
    "succeeds, raises HandlerError}: the module's file is written exactly once, with exactly the value "
    "apply_stub_using_libcst returned, only when it returned; the path written is inspect.getfile of the module named on "
    "the command line and the text handed to the transformer is read from that same path; the overwrite flag is "
    "`existing_annotation_strategy == IGNORE` and the confinement flag is --pep_563. The arguments of "
    "ApplyTypeAnnotationsVisitor.store_stub_in_context are bound against the signature of the installed libcst (read from "
    "its source with ast, not imported): position 2 is overwrite_existing_annotations. apply_stub_using_libcst applies no "
    "transformer other than ApplyTypeAnnotationsVisitor and (flag) MoveImportsToTypeCheckingBlockVisitor (see C16 for the "
    "effect trace). Not decided: AST equality of the result modulo annotations and idempotence - properties of libcst over "
    "all source programs."
)


def _libcst_signature() -> Optional[List[str]]:
    """Parameter names of ApplyTypeAnnotationsVisitor.store_stub_in_context in the installed libcst (source, not import)."""
    import sysconfig
    for key in ("purelib", "platlib"):
        base = sysconfig.get_path(key)
        p = os.path.join(base, "libcst", "codemod", "visitors", "_apply_type_annotations.py")
        if os.path.exists(p):
            tree = ast.parse(open(p).read())
            for c in ast.walk(tree):
                if isinstance(c, ast.ClassDef) and c.name == "ApplyTypeAnnotationsVisitor":
                    for f in c.body:
                        if isinstance(f, ast.FunctionDef) and f.name == "store_stub_in_context":
                            a = f.args
                            return [x.arg for x in a.posonlyargs + a.args] + ["*"] + [x.arg for x in a.kwonlyargs]
    return None


def _libcst_defaults() -> Dict[str, Any]:
    """default values of store_stub_in_context's parameters in the installed libcst (constants only; source, not import)"""
    import sysconfig
    out: Dict[str, Any] = {}
    for key in ("purelib", "platlib"):
        base = sysconfig.get_path(key)
        p = os.path.join(base, "libcst", "codemod", "visitors", "_apply_type_annotations.py")
        if os.path.exists(p):
            tree = ast.parse(open(p).read())
            for c in ast.walk(tree):
                if isinstance(c, ast.ClassDef) and c.name == "ApplyTypeAnnotationsVisitor":
                    for f in c.body:
                        if isinstance(f, ast.FunctionDef) and f.name == "store_stub_in_context":
                            a = f.args
                            pos = a.posonlyargs + a.args
                            for prm, dv in zip(pos[len(pos) - len(a.defaults):], a.defaults):
                                if isinstance(dv, ast.Constant):
                                    out[prm.arg] = dv.value
                            for prm, dv in zip(a.kwonlyargs, a.kw_defaults):
                                if isinstance(dv, ast.Constant):
                                    out[prm.arg] = dv.value
            return out
    return out


def overwrite_by_strategy(repo: Repo) -> Dict[str, Tuple[Any, Any]]:
    """strategy member -> (value apply_stub_handler binds to apply_stub_using_libcst's overwrite flag, expected value)"""
    from .glue_model import bind_values
    ah = repo.fn(CLI, "apply_stub_handler")
    callee = repo.fn(CLI, "apply_stub_using_libcst")
    ps = ah.positional_params()
    out: Dict[str, Tuple[Any, Any]] = {}
    for member in ("IGNORE", "REPLICATE", "OMIT"):
        got: List[Any] = []

        def hook(call, fname, fval, args, kwargs, st, _g=got):
            d = fname or ""
            m = call.func.attr if isinstance(call.func, ast.Attribute) else None
            if d == "get_stub":
                return R("stubobj")
            if d == "apply_stub_using_libcst":
                _g.append(st.freeze(bind_values(callee, args, kwargs).get("overwrite_existing_annotations", K("<missing>"))))
                return R("new_source")
            if d in ("importlib.import_module", "inspect.getfile", "Path", "print") or m in ("read_text", "write_text", "render"):
                return R("opaque", what=K(d or m))
            return None

        sc = CliScenario(repo, CLI, "apply_stub_handler", hook=hook, inline_all=True)
        token = sc.ri.interp.eval(ast.parse("ExistingAnnotationStrategy." + member, mode="eval").body, State())
        args_rec = R("args", module_path=K((K("pkg.mod"), K(None))), existing_annotation_strategy=token, pep_563=S("the-flag"))
        sc.run({ps[0]: args_rec, ps[1]: K("stdout"), ps[2]: K("stderr")})
        out[member] = (got[0] if len(got) == 1 else f"{len(got)} apply calls", K(member == "IGNORE"))
    return out


def rule_binding(ctx: Ctx, repo: Repo) -> None:
    """apply_stub_using_libcst interpreted (helpers inlined): the one store_stub_in_context call, its arguments bound
    against the parameter list of the *installed* libcst (read from its source)"""
    fi = repo.fn(CLI, "apply_stub_using_libcst")
    ctx.functions.add(fi.fq)
    sig = _libcst_signature()
    if sig is None:
        raise AnalysisError("the source of the installed libcst's ApplyTypeAnnotationsVisitor was not found")
    pos = [p for p in sig[: sig.index("*")] if p not in ("self", "cls")]
    ps = fi.positional_params()
    for flag, OW in [(f_, o_) for f_ in (False, True) for o_ in (S("overwrite"), K(False), K(True))]:
        stores: List[Tuple[Tuple[V, ...], Dict[str, V]]] = []

        def hook(call, fname, fval, args, kwargs, st, _s=stores):
            d = fname or ""
            m = call.func.attr if isinstance(call.func, ast.Attribute) else None
            last = d.split(".")[-1]
            if d == "parse_module":
                return R("module", of=args[0])
            if d == "CodemodContext":
                return R("context")
            if d.endswith("store_stub_in_context"):
                _s.append((tuple(st.freeze(a) for a in args), {k: st.freeze(v) for k, v in kwargs.items()}))
                return K(None)
            if d.endswith("store_imports_in_context"):
                return K(None)
            if d == "get_newly_imported_items":
                return R("list", items=())
            if last.endswith(("Visitor", "Transformer")) and last[:1].isupper():
                return R("visitor", what=K(last))
            if m in ("transform_module", "visit") and isinstance(fval, R) and fval.kind == "visitor":
                return R("transformed", by=fval.fields["what"], of=st.freeze(args[0]) if args else K(None))
            return None

        sc = CliScenario(repo, CLI, "apply_stub_using_libcst", hook=hook)
        sc.result({ps[0]: S("stub"), ps[1]: S("source"), ps[2]: OW, ps[3]: K(flag)})
        ctx.check(len(stores) == 1, "R-C15.1", fi.fq, "the stub is stored in the libcst context once", construct=f"confine={flag}: {len(stores)} calls")
        for a, kw in stores:
            bound: Dict[str, V] = dict(zip(pos, a))
            bound.update(kw)
            ctx.check(bound.get("overwrite_existing_annotations") == OW, "R-C15.1", fi.fq,
                      "libcst's overwrite_existing_annotations receives the caller's overwrite flag (bound against the installed libcst's signature)",
                      construct=f"confine={flag}: {bound.get('overwrite_existing_annotations')} ; libcst parameters {sig}")
            ctx.check(bound.get("use_future_annotations") == K(flag), "R-C15.1", fi.fq, "libcst's use_future_annotations receives the confinement flag",
                      construct=f"confine={flag}: {bound.get('use_future_annotations')}")
            ctx.check(bound.get("stub") == R("module", of=S("stub")), "R-C15.1", fi.fq, "the stub handed to libcst is the parsed stub text", construct=f"{bound.get('stub')}")
            # every other switch of libcst's codemod stays at libcst's own default: each of them (strict_posargs_matching,
            # strict_annotation_matching, always_qualify_annotations, handle_function_bodies, create_class_attributes ...) changes
            # WHICH functions get annotated or WHAT else is written into the source
            defaults = _libcst_defaults()
            for k_o, v_o in bound.items():
                if k_o in ("context", "stub", "overwrite_existing_annotations", "use_future_annotations") or k_o not in sig:
                    continue
                d_o = defaults.get(k_o, "<no default>")
                ctx.check(isinstance(v_o, K) and d_o != "<no default>" and v_o.v == d_o, "R-C15.1", fi.fq,
                          "libcst's ApplyTypeAnnotationsVisitor runs with its own defaults for every option MonkeyType does not expose (an option that skips functions whose existing annotations differ textually would drop stub annotations silently)",
                          construct=f"confine={flag}, overwrite={getattr(OW, 'v', OW)}: {k_o}={getattr(v_o, 'v', v_o)} (libcst's default: {d_o})")
            unknown = [k for k in bound if k not in sig]
            ctx.check(not unknown and len(a) <= len(pos), "R-C15.1", fi.fq, "every argument names a parameter the installed libcst has", construct=f"{unknown}")


def rule_write(ctx: Ctx, repo: Repo) -> None:
    ah = repo.fn(CLI, "apply_stub_handler")
    ctx.functions.add(ah.fq)
    ps = ah.positional_params()
    for have_stub in (True, False):
        for fails in (False, True):
            eff: List[Tuple[Any, ...]] = []
            def hook(call, fname, fval, args, kwargs, st, _e=eff, _h=have_stub, _f=fails):
                d = fname or ""
                m = call.func.attr if isinstance(call.func, ast.Attribute) else None
                if d == "get_stub":
                    return R("stubobj") if _h else K(None)
                if d == "complain_about_no_traces":
                    _e.append(("complain",))
                    return K(None)
                if d == "importlib.import_module":
                    return R("pymodule", name=args[0])
                if d == "inspect.getfile":
                    return R("file_of", mod=args[0])
                if d == "Path":
                    return R("path", of=args[0])
                if m == "read_text" and isinstance(fval, R) and fval.kind == "path":
                    _e.append(("read", fval))
                    return R("text_of", path=fval)
                if m == "render" and isinstance(fval, R) and fval.kind == "stubobj":
                    return R("rendered", of=fval)
                if d == "apply_stub_using_libcst":
                    from .glue_model import bind_values
                    _e.append(("apply", (), tuple(sorted((k, st.freeze(v)) for k, v in bind_values(repo.fn(CLI, "apply_stub_using_libcst"), args, kwargs).items()))))
                    if _f:
                        st.pending = st.pending or "HandlerError"
                        return U("failed")
                    return R("new_source")
                if m == "write_text" and isinstance(fval, R) and fval.kind == "path":
                    _e.append(("write", fval, st.freeze(args[0])))
                    return K(None)
                if m in ("write", "writelines", "truncate", "unlink", "rename", "replace", "write_bytes") or d in ("open", "os.remove", "os.rename", "shutil.copy", "shutil.move"):
                    _e.append(("other-file-op", d or m))
                    return K(None)
                if d == "print":
                    _e.append(("print", tuple(st.freeze(a) for a in args), kwargs.get("file", K("stdout"))))
                    return K(None)
                return None
            sc = CliScenario(repo, CLI, "apply_stub_handler", hook=hook, inline_all=False)
            IGN = S("monkeytype.stubs.ExistingAnnotationStrategy.IGNORE")
            base_name = sc.ri.interp.on_name
            args_rec = R("args", module_path=K((K("pkg.mod"), K(None))), existing_annotation_strategy=S("the-strategy"), pep_563=S("the-flag"))
            k, res = sc.result({ps[0]: args_rec, ps[1]: K("stdout"), ps[2]: K("stderr")})
            lab = f"stub {'found' if have_stub else 'absent'}, transform {'fails' if fails else 'succeeds'}"
            writes = [e for e in eff if e[0] == "write"]
            others = [e for e in eff if e[0] == "other-file-op"]
            ctx.check(not others, "R-C15.2", ah.fq, "the handler touches the file system only through read_text / write_text of the module's path", construct=f"{lab}: {others}")
            if not have_stub:
                ctx.check(not writes and [e[0] for e in eff] == ["complain"] and k == "return", "R-C15.2", ah.fq, "without traces nothing is read, transformed or written", construct=f"{lab}: {[e[0] for e in eff]}")
                continue
            path = R("path", of=R("file_of", mod=R("pymodule", name=K("pkg.mod"))))
            applies = [e for e in eff if e[0] == "apply"]
            ok = len(applies) == 1
            if ok:
                kw = dict(applies[0][2])
                ok = kw.get("source") == R("text_of", path=path) and kw.get("stub") == R("rendered", of=R("stubobj")) and kw.get("confine_new_imports_in_type_checking_block") == S("the-flag")
                ov = kw.get("overwrite_existing_annotations")
            ctx.check(ok, "R-C15.2", ah.fq, "the transformer receives the rendered stub and the current text of the file of the module named on the command line; confinement is --pep_563",
                      construct=f"{lab}: {str(applies)[:200]}")
            if fails:
                ctx.check(not writes and k == "raise" and res == "HandlerError", "R-C15.2", ah.fq, "a failed transformation leaves the file untouched (the error propagates to main)",
                          construct=f"{lab}: writes {len(writes)}, outcome {k} {res}")
            else:
                ctx.check(len(writes) == 1 and writes[0][1] == path and writes[0][2] == R("new_source"), "R-C15.2", ah.fq,
                          "the file is written exactly once, at the same path, with exactly what the transformer returned", construct=f"{lab}: {writes}")
                order = [e[0] for e in eff if e[0] in ("read", "apply", "write")]
                ctx.check(order == ["read", "apply", "write"], "R-C15.2", ah.fq, "read, transform, then write", construct=f"{order}")
    # the overwrite flag: interpreted for each strategy the parser can store
    for flag, want in overwrite_by_strategy(repo).items():
        ctx.check(want[0] == want[1], "R-C15.1", ah.fq, "existing annotations are overwritten exactly when the ignore option was given",
                  construct=f"strategy {flag}: overwrite_existing_annotations={want[0]}, expected {want[1]}")



def rule_transformers(ctx: Ctx, repo: Repo) -> None:
    """apply_stub_using_libcst interpreted with the confinement flag off/on: the sequence of libcst transformations
    applied to the source module (any spelling: helpers, locals ...)"""
    fi = repo.fn(CLI, "apply_stub_using_libcst")
    ps = fi.positional_params()
    for flag in (False, True):
        tr: List[Tuple[str, Any]] = []

        def hook(call, fname, fval, args, kwargs, st, _t=tr):
            m = call.func.attr if isinstance(call.func, ast.Attribute) else None
            d = fname or ""
            last = d.split(".")[-1]
            if d == "parse_module":
                return R("module", of=args[0])
            if d == "CodemodContext":
                return R("context")
            if d.endswith("store_stub_in_context") or d.endswith("store_imports_in_context"):
                return K(None)
            if d == "get_newly_imported_items":
                return R("list", items=())
            if last.endswith(("Visitor", "Transformer", "Codemod", "Command")) and isinstance(call.func, (ast.Name, ast.Attribute)) and last[:1].isupper():
                return R("visitor", what=K(last))
            if m in ("transform_module", "transform_module_impl", "visit") and isinstance(fval, R) and fval.kind == "visitor":
                _t.append((fval.fields["what"].v, st.freeze(args[0]) if args else None))
                return R("transformed", by=fval.fields["what"], of=st.freeze(args[0]) if args else K(None))
            if m == "visit" and isinstance(fval, R) and fval.kind in ("module", "transformed") and args and isinstance(args[0], R) and args[0].kind == "visitor":
                _t.append((args[0].fields["what"].v, st.freeze(fval)))
                return R("transformed", by=args[0].fields["what"], of=st.freeze(fval))
            return None

        sc = CliScenario(repo, CLI, "apply_stub_using_libcst", hook=hook)
        k, res = sc.result({ps[0]: S("stub"), ps[1]: S("source"), ps[2]: S("overwrite"), ps[3]: K(flag)})
        src = R("module", of=S("source"))
        want = [("ApplyTypeAnnotationsVisitor", src)]
        if flag:
            want.append(("MoveImportsToTypeCheckingBlockVisitor", R("transformed", by=K("ApplyTypeAnnotationsVisitor"), of=src)))
        ctx.check(tr == want, "R-C15.3", fi.fq,
                  "the source is transformed by ApplyTypeAnnotationsVisitor and (only with the confinement flag) MoveImportsToTypeCheckingBlockVisitor, nothing else",
                  construct=f"confine={flag}: {[t[0] for t in tr]}")
        final = R("opaque", of=R("transformed", by=K(want[-1][0]), of=want[-1][1]), attr=K("code"))
        ctx.check(k == "return" and res == final, "R-C15.3", fi.fq, "the result is the code of the last of these transformations, unedited",
                  construct=f"confine={flag}: {k} {str(res)[:140]}")


def run(ctx: Ctx, repo: Repo, tier: str) -> None:
    ctx.trust("libcst's ApplyTypeAnnotationsVisitor: only adds annotations/imports and honours overwrite_existing_annotations (its own tests; not analysed here)",
              "pathlib.Path.write_text replaces the file's content; inspect.getfile(module) is the module's source file")
    ctx.attempt(rule_binding, ctx, repo)
    ctx.attempt(rule_write, ctx, repo)
    ctx.attempt(rule_transformers, ctx, repo)
    # stage conditions of C15 decided in full elsewhere: libcst matches stub functions to source functions by the shape
    # of the parameter list, so the stub's signatures must mirror the real ones (C12); the imports moved or removed
    # under --pep_563 are exactly the stub's new ones, the source's own imports are left alone (C16)
    from . import c12 as _c12, c16 as _c16
    ctx.note("R-C12.5 and R-C16.2/R-C16.4 below are the stage rules of C12 and C16, run here as necessary conditions of C15")
    ctx.attempt(_c12.rule_signature, ctx, repo, tier)
    ctx.attempt(_c16.rule_cli, ctx, repo)
    ctx.attempt(_c16.rule_identity, ctx, repo)
    ctx.attempt(_c16.rule_split, ctx, repo)
    # "every stub annotation for an unannotated position is present in the result": libcst's ApplyTypeAnnotationsVisitor copies
    # annotations of named parameters (params, keyword-only, positional-only) and of the return only - an annotation the stub
    # carried for *args / **kwargs would be dropped silently; the tracer records named parameters only (R-C02.5)
    ctx.trust("libcst's ApplyTypeAnnotationsVisitor._update_parameters copies annotations for params, kwonly_params and posonly_params, not for star_arg / star_kwarg")
    from . import c02 as _c02
    ctx.attempt(_c02.rule_arg_capture, ctx, repo)
    ctx.settle()
