"""Witness for R-C07.1/3 (run by hand: PYTHONPATH=/repo /venv/bin/python witness/c07_iterator_any.py).
get_type records every generator object as Iterator[Any] (its items are never looked at).  RemoveEmptyContainers took any
generic whose arguments are all Any for an EMPTY container and dropped it next to a sibling of the same kind:
Union[Iterator[Any], Iterator[int]] -> Iterator[int], which a generator of strings does not belong to."""
import sys
from typing import Any, Iterator, Union, Generator
from monkeytype.typing import RemoveEmptyContainers, RewriteGenerator, ChainedRewriter, get_type
def gen():
    yield "s"
t_gen = get_type(gen(), 0)
print("a generator object is recorded as", t_gen)
bad = 0
r = RemoveEmptyContainers().rewrite(Union[t_gen, Iterator[int]])
print("RemoveEmptyContainers:", Union[t_gen, Iterator[int]], "->", r)
if r == Iterator[int]:
    print("WITNESSED: narrowed - the generator of strings is no longer admitted"); bad = 1
r2 = ChainedRewriter((RewriteGenerator(), RemoveEmptyContainers())).rewrite(Union[Generator[int, None, None], t_gen])
print("RewriteGenerator then RemoveEmptyContainers:", r2)
if r2 == Iterator[int]:
    print("WITNESSED: the pair narrows too"); bad = 1
print("OK" if not bad else "FAILED"); sys.exit(bad)
