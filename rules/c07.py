"""C07 - shipped rewriters never narrow, never crash, and fire only on their trigger (static clauses).

R-C07.1  never narrows: the result of every shipped rewriter admits every member of the input union
         (independent subtype oracle over abstract types)
R-C07.2  never crashes: no scenario ends in an exception (IndexError on Tuple[()], AttributeError on
         generic members, TypeError from issubclass ...)
R-C07.3  fires only on its documented trigger; without the trigger the input comes back unchanged;
         RemoveEmptyContainers drops nothing but empty containers that have a non-empty sibling of the same kind
R-C07.5  the compat predicates the rewriters dispatch on answer as the type model assumes (is_generic_of = same origin ...)
R-C07.4  chain integrity: DEFAULT_REWRITER chains all four rewriters, ChainedRewriter feeds each output to
         the next, the configs return the documented rewriters; container recursion rewrites every argument
"""
from __future__ import annotations

import ast
from typing import Any, Dict, List, Optional, Tuple

from mtsa.absint import K, R, Ref, S, State, U, V
from mtsa.index import Repo, dotted, norm, walk_no_nested
from mtsa.report import AnalysisError, Ctx

from . import rw_model as RW
from .rw_model import ANY, NONE_T, RewriterScenario, admits, g, is_class, members, show, union
from .common import cfg_of, is_call_to, returns_of

LEVEL = "other"
EXPLANATION = (
    "Static decision of the structural clauses of C07 by abstract interpretation of the shipped rewriters' rewrite_Union / "
    "rewrite_Generator methods (nothing is executed) over ~1400 abstract unions: all ordered pairs of a 30-type alphabet "
    "(builtin scalars, a user hierarchy with single and multiple inheritance, List/Set/Dict/DefaultDict/Tuple incl. Tuple[()] "
    "and bare Tuple, Type, Callable, Iterator[Any], Generator), triples of a 12-type alphabet and crafted unions of 6-7 members "
    "in every rotation (so each member is first once). For each (rewriter, union): the interpretation must not end in an "
    "exception; an independent subtype oracle must find every member admitted by the result; and when the documented trigger "
    "(computed independently on the abstract union) is absent the result must equal the input. RemoveEmptyContainers may drop "
    "only empty containers that have a non-empty sibling of the same kind. The default chain is composed abstractly in the "
    "order written in DEFAULT_REWRITER. Not decided: subtyping on concrete runtime values; nested positions beyond the top "
    "level are covered only through the container-recursion rule."
)
TY = RW.TY


def _is_empty(t: V) -> bool:
    """the type inference records for an EMPTY container value: List[Any], Set[Any], Dict[Any, Any], DefaultDict[Any, Any]"""
    return isinstance(t, R) and t.kind == "generic" and isinstance(t.fields["args"], K) and isinstance(t.fields["args"].v, tuple) and \
        t.fields["args"].v != () and all(a == ANY for a in t.fields["args"].v) and t.fields["origin"].v in RW.EMPTY_KINDS


def _origin(t: V) -> Optional[str]:
    return t.fields["origin"].v if isinstance(t, R) and t.kind == "generic" else None


def trig_remove_empty(ms: Tuple[V, ...]) -> bool:
    return any(_is_empty(e) and any((not _is_empty(m)) and _origin(m) == _origin(e) for m in ms) for e in ms)


def trig_config_dict(ms: Tuple[V, ...]) -> bool:
    if not all(_origin(m) == "Dict" and isinstance(m.fields["args"], K) and isinstance(m.fields["args"].v, tuple) and len(m.fields["args"].v) == 2 for m in ms):
        return False
    return len({repr(m.fields["args"].v[0]) for m in ms}) == 1


def trig_common_base(ms: Tuple[V, ...]) -> bool:
    # a generated TypedDict is a class (a subclass of dict) as far as this rewriter's documented trigger goes
    return all(is_class(m) or RW.is_td(m) for m in ms)


REWRITERS: List[Tuple[str, str, Dict[str, V], Any, str]] = [
    ("RemoveEmptyContainers", "rewrite_Union", {}, trig_remove_empty, "an empty container next to a non-empty container of the same kind"),
    ("RewriteConfigDict", "rewrite_Union", {}, trig_config_dict, "all members are Dict[...] with one key type"),
    ("RewriteLargeUnion", "rewrite_Union", {"max_union_len": K(5)}, lambda ms: len(ms) > 5, "more than max_union_len (5) members"),
    ("RewriteLargeUnion", "rewrite_Union", {"max_union_len": K(2)}, lambda ms: len(ms) > 2, "more than max_union_len (2) members"),
    ("RewriteMostSpecificCommonBase", "rewrite_Union", {}, trig_common_base, "all members are plain classes"),
]


def rule_rewriters(ctx: Ctx, repo: Repo, tier: str) -> None:
    inputs = RW.union_inputs(tier)
    ctx.floor("R-C07.1", "abstract union inputs", len(inputs), 1000)
    for cname, meth, attrs, trigger, tdesc in REWRITERS:
        ci = repo.cls(TY, cname)
        fi = repo.method(ci, meth)
        ctx.functions.add(fi.fq)
        w = fi.fq
        cfg = f" ({', '.join(f'{k}={v.v}' for k, v in attrs.items())})" if attrs else ""
        param = fi.positional_params()[1]
        n_trig = 0
        for u in inputs:
            ms = members(u)
            res = RewriterScenario(repo, cname, meth, attrs).result({param: u})
            lab = f"{cname}{cfg}: {show(u)}"
            if isinstance(res, R) and res.kind == "raises":
                ctx.violate("R-C07.2", w, f"{show(u)} -> raises {res.fields['what'].v}", f"{cname}{cfg} raises on a type inference can produce", scenario=lab)
                continue
            if isinstance(res, U):
                raise AnalysisError(f"{lab}: result undetermined ({res})")
            ctx.ok("R-C07.2", w, f"{cname}{cfg} completes without error", scenario=lab)
            bad = [m for m in ms if not admits(res, m)]
            ctx.check(not bad, "R-C07.1", w, f"the result of {cname}{cfg} admits every member of its input",
                      construct=f"{show(u)} -> {show(res)} no longer admits {', '.join(show(b) for b in bad)}", scenario=lab)
            t = trigger(ms)
            n_trig += t
            if not t:
                ctx.check(res == u, "R-C07.3", w, f"{cname}{cfg} leaves a union unchanged unless its trigger is present ({tdesc})",
                          construct=f"{show(u)} -> {show(res)} although the trigger is absent", scenario=lab)
            elif cname == "RemoveEmptyContainers":
                rm = members(res)
                dropped = [m for m in ms if m not in rm]
                wrong = [m for m in dropped if not (_is_empty(m) and any((not _is_empty(x)) and _origin(x) == _origin(m) for x in ms))]
                added = [m for m in rm if m not in ms]
                ctx.check(not wrong and not added, "R-C07.3", w,
                          "RemoveEmptyContainers drops only empty containers that have a non-empty sibling of the same kind, and adds nothing",
                          construct=f"{show(u)} -> {show(res)} dropped {', '.join(show(x) for x in wrong)} added {', '.join(show(x) for x in added)}", scenario=lab)
        ctx.floor("R-C07.3", f"inputs carrying the trigger of {cname}{cfg}", n_trig, 5)
    # RewriteGenerator
    ci = repo.cls(TY, "RewriteGenerator")
    fi = repo.method(ci, "rewrite_Generator")
    ctx.functions.add(fi.fq)
    param = fi.positional_params()[1]
    for y in (RW.INT, g("List", RW.INT)):
        for s_ in (NONE_T, RW.INT):
            for r_ in (NONE_T, RW.STR):
                t = g("Generator", y, s_, r_)
                res = RewriterScenario(repo, "RewriteGenerator", "rewrite_Generator", {}).result({param: t})
                lab = f"RewriteGenerator: {show(t)}"
                if isinstance(res, R) and res.kind == "raises":
                    ctx.violate("R-C07.2", fi.fq, f"{show(t)} raises", "RewriteGenerator raises", scenario=lab)
                    continue
                trig = s_ == NONE_T and r_ == NONE_T
                ctx.check(res == (g("Iterator", y) if trig else t), "R-C07.3", fi.fq,
                          "RewriteGenerator turns exactly Generator[Y, None, None] into Iterator[Y]",
                          construct=f"{show(t)} -> {show(res)}", scenario=lab)
                ctx.check(admits(res, t), "R-C07.1", fi.fq, "the result admits the input", construct=f"{show(t)} -> {show(res)}")


def rule_dispatch(ctx: Ctx, repo: Repo) -> None:
    """R-C07.6: the entry point `rewrite(typ)` - the dispatch every shipped rewriter inherits - is interpreted for plain
    classes, among them user classes that merely share their name with a typing alias: no exception, and a plain class
    (no rewriter's trigger) comes back unchanged."""
    plain = [RW.INT, RW.STR, NONE_T, RW.BASE, RW.L1, RW.X_] + [RW.cls(n) for n in RW.NAMESAKES]
    n = 0
    for cname in ("RemoveEmptyContainers", "RewriteConfigDict", "RewriteLargeUnion", "RewriteMostSpecificCommonBase", "RewriteGenerator", "NoOpRewriter", "TypeRewriter"):
        ci = repo.cls(TY, cname)
        fi = repo.method(ci, "rewrite")
        if fi is None:
            raise AnalysisError(f"{cname}.rewrite not found")
        ctx.functions.add(fi.fq)
        param = fi.positional_params()[1]
        for t in plain:
            sc = RewriterScenario(repo, cname, "rewrite", {"max_union_len": K(5)} if cname == "RewriteLargeUnion" else {})
            gr = repo.method(ci, "generic_rewrite")
            if gr is not None:
                sc.ri.inline.add(gr.fq)
            res = sc.result({param: t})
            n += 1
            lab = f"{cname}().rewrite({show(t)})" + (" - a user class that shares its name with a typing alias" if isinstance(t, S) and t.name in RW.NAMESAKES else "")
            if isinstance(res, R) and res.kind == "raises":
                ctx.violate("R-C07.6", fi.fq, f"dispatch by the bare __name__ of a plain class: {cname}().rewrite(<class {show(t)}>) raises {res.fields['what'].v}",
                            "rewriting a plain class raises: the class is dispatched by its bare name to the handler of the typing alias of that name", scenario=lab)
                continue
            if isinstance(res, U):
                raise AnalysisError(f"{lab}: result undetermined ({res})")
            ctx.check(res == t, "R-C07.6", fi.fq, "a plain class comes back from rewrite() unchanged (no rewriter's trigger is a plain class)",
                      construct=f"dispatch by the bare __name__ of a plain class: {lab} -> {show(res)}", scenario=lab)
    ctx.floor("R-C07.6", "rewrite() dispatch scenarios on plain classes", n, 100)


DEEP_REWRITERS = ["RemoveEmptyContainers()", "RewriteConfigDict()", "RewriteLargeUnion()", "RewriteLargeUnion(2)", "RewriteMostSpecificCommonBase()",
                  "RewriteGenerator()", "NoOpRewriter()", "DEFAULT_REWRITER"]


def rule_nested(ctx: Ctx, repo: Repo) -> None:
    """R-C07.7: the whole protocol `rewriter.rewrite(t)` with a real rewriter object (its constructor run, its attributes on the
    heap, dispatch and recursion as in the source) on types whose unions sit BELOW the top level: no exception, and the
    result admits everything the input admitted - at every nesting position."""
    n = 0
    for ctor in DEEP_REWRITERS:
        for t in RW.deep_inputs():
            src = ctor
            if ctor == "DEFAULT_REWRITER":
                dr = repo.module(TY).constants.get("DEFAULT_REWRITER")
                if dr is None:
                    raise AnalysisError("DEFAULT_REWRITER not found")
                src = ast.unparse(dr)  # the chain is built by running the constructors of the constant's own expression
            res = RW.DeepScenario(repo, src).result({"t": t})
            n += 1
            lab = f"{ctor}.rewrite({show(t)})"
            w = f"{TY}.{ctor.split('(')[0]}" if ctor != "DEFAULT_REWRITER" else f"{TY}.DEFAULT_REWRITER"
            if isinstance(res, R) and res.kind == "raises":
                ctx.violate("R-C07.7", w, f"{lab} raises {res.fields['what'].v}", "rewriting raises on a nested type inference can produce", scenario=lab)
                continue
            if isinstance(res, U):
                raise AnalysisError(f"{lab}: result undetermined ({res})")
            ctx.check(admits(res, t), "R-C07.7", w, "the result admits everything the input admitted, also where unions are nested inside containers",
                      construct=f"{lab} -> {show(res)}", scenario=lab)
            ms_t = members(t)
            if len(ms_t) >= 2:
                # the members of a union arrive in an arbitrary order (set iteration, yield order): the result is the same type
                t_rev = union(*reversed(ms_t))
                res_rev = RW.DeepScenario(repo, src).result({"t": t_rev})
                n += 1
                if not (isinstance(res_rev, R) and res_rev.kind == "raises") and not isinstance(res_rev, U):
                    ctx.check(RW.canon_key(res_rev) == RW.canon_key(res), "R-C07.7", w,
                              "rewriting a union gives the same type whatever order its members are in (a nested rewrite does not disturb what is being decided about the outer union)",
                              construct=f"{lab} -> {show(res)}, with the members reversed -> {show(res_rev)}", scenario=lab)
    ctx.floor("R-C07.7", "nested-type scenarios with real rewriter objects", n, 250)


def rule_no_memory(ctx: Ctx, repo: Repo) -> None:
    """R-C07.3: a rewriter's answer depends on (its own configuration, the type) only - not on what another
    instance rewrote earlier in the same process (module-level objects persist across the two calls)."""
    fi = repo.method(repo.cls(TY, "RewriteLargeUnion"), "rewrite_Union")
    p = fi.positional_params()[1]
    unions = [union(RW.INT, RW.STR, RW.FLT), union(RW.L1, RW.L2, RW.OTH), union(RW.INT, RW.STR, RW.FLT, RW.BYT), union(g("Tuple", RW.INT), g("Tuple", RW.INT, RW.INT), g("Tuple", RW.INT, RW.INT, RW.INT)),
              union(RW.INT, RW.STR, RW.FLT, RW.BYT, NONE_T), union(g("List", RW.INT), RW.INT, NONE_T)]
    n = 0
    for u in unions:
        for first, second in ((2, 5), (5, 2), (2, 2)):
            alone = RewriterScenario(repo, "RewriteLargeUnion", "rewrite_Union", {"max_union_len": K(second)}).result({p: u})
            sc1 = RewriterScenario(repo, "RewriteLargeUnion", "rewrite_Union", {"max_union_len": K(first)})
            sc1.result({p: u})
            sc2 = RewriterScenario(repo, "RewriteLargeUnion", "rewrite_Union", {"max_union_len": K(second)})
            after = sc2.result({p: u}, carry=sc1.last_state)
            n += 1
            ctx.check(after == alone, "R-C07.3", fi.fq,
                      "what RewriteLargeUnion(n) returns for a union does not depend on an earlier rewrite by an instance with another maximum",
                      construct=f"{show(u)}: RewriteLargeUnion({second}) gives {show(after)} after RewriteLargeUnion({first}) ran, {show(alone)} on its own")
    ctx.floor("R-C07.3", "two-call sequences", n, 15)


def _dispatch(repo: Repo, cname: str, attrs: Dict[str, V], t: V) -> V:
    """Top-level dispatch of GenericTypeRewriter.rewrite for the abstract type t and rewriter class cname."""
    ci = repo.cls(TY, cname)
    kind = None
    if isinstance(t, R) and t.kind == "generic":
        kind = t.fields["origin"].v
    if kind is None:
        return t
    m = repo.method(ci, "rewrite_" + kind)
    if m is None or m.cls is not None and m.cls.name in ("GenericTypeRewriter",):
        return t  # generic container recursion: members are leaves here
    return RewriterScenario(repo, cname, "rewrite_" + kind, attrs).result({m.positional_params()[1]: t})


def rule_chain(ctx: Ctx, repo: Repo) -> None:
    mod = repo.module(TY)
    dr = mod.constants.get("DEFAULT_REWRITER")
    if dr is None:
        raise AnalysisError("DEFAULT_REWRITER not found")
    # the constant is *evaluated* (constructors run abstractly): a chain object whose `rewriters` holds the members
    from mtsa.index import FunctionInfo as _FI
    from .common import RepoInterp as _RI
    dummy = _FI(mod, "<module>", ast.parse("def _m(): pass").body[0])
    ri0 = _RI(repo, dummy, may_fork=(), heap=True, inline={f.fq for f in mod.functions.values()})
    ri0.construct_instances = True
    st0 = State()
    chain_v = ri0.interp.eval(dr, st0)
    names: List[Tuple[str, Dict[str, V]]] = []
    ok = isinstance(chain_v, Ref) and chain_v.kind == "obj" and st0.deref(chain_v).get("__class__") == K(f"{TY}.ChainedRewriter")
    if ok:
        chain_list = ri0.interp.iterate(st0.deref(chain_v).get("rewriters", U("?")), st0)
        ok = chain_list is not None
        for m_ in chain_list or []:
            if isinstance(m_, Ref) and m_.kind == "obj":
                d_ = dict(st0.deref(m_))
                cn = str(d_.pop("__class__", K("?")).v).rsplit(".", 1)[-1]
                names.append((cn, {k: st0.freeze(v) for k, v in d_.items()}))
            else:
                ok = False
    ctx.check(ok and [n for n, _ in names] == ["RemoveEmptyContainers", "RewriteConfigDict", "RewriteLargeUnion", "RewriteGenerator"],
              "R-C07.4", TY, "DEFAULT_REWRITER chains RemoveEmptyContainers, RewriteConfigDict, RewriteLargeUnion, RewriteGenerator in this order",
              construct="DEFAULT_REWRITER = " + norm(dr))
    # ChainedRewriter.rewrite interpreted with 0..3 opaque member rewriters: each is fed the previous output, in order;
    # and again as the second call of a history on the same chain object (no answer remembered for another type)
    ch = repo.cls(TY, "ChainedRewriter")
    rw = repo.method(ch, "rewrite")
    ctx.functions.add(rw.fq)
    p = rw.positional_params()[1]
    init = repo.method(ch, "__init__")
    ip = init.positional_params()[1]
    stores = [x for x in walk_no_nested(init.node) if isinstance(x, ast.Assign) and dotted(x.targets[0]) == "self.rewriters"]
    ctx.check(len(stores) == 1 and dotted(stores[0].value) == ip, "R-C07.4", init.fq,
              "ChainedRewriter keeps the rewriters it was given", construct="; ".join(norm(s) for s in stores))

    def nested(t: V, k: int) -> V:
        for i in range(k):
            t = R("out", by=K(i), of=K(repr(t)))
        return t

    t1, t2 = g("List", RW.INT), g("Dict", RW.STR, union(RW.FLT, NONE_T))
    for k in (0, 1, 2, 3):
        chain_members = K(tuple(R("rw", id=K(i)) for i in range(k)))
        sc1 = RewriterScenario(repo, "ChainedRewriter", "rewrite", {"rewriters": chain_members})
        r1 = sc1.result({p: t1})
        ctx.check(r1 == nested(t1, k), "R-C07.4", rw.fq, "ChainedRewriter feeds each rewriter's output to the next over all configured rewriters",
                  construct=f"chain of {k}: {show(t1)} -> {str(r1)[:120]}")
        sc2 = RewriterScenario(repo, "ChainedRewriter", "rewrite", {"rewriters": chain_members})
        r2 = sc2.result({p: t2}, carry=sc1.last_state)
        ctx.check(r2 == nested(t2, k), "R-C07.4", rw.fq,
                  "a chain's answer for a type is computed from that type (the first type of the history is gone by then; nothing remembered under its address stands in)",
                  construct=f"chain of {k}: after rewriting {show(t1)}, {show(t2)} -> {str(r2)[:120]}")
    # configs
    dc = repo.cls("monkeytype.config", "DefaultConfig")
    tr = repo.method(dc, "type_rewriter")
    rets = returns_of(tr)
    ctx.check(tr.cls is dc and len(rets) == 1 and dotted(rets[0][1]) == "DEFAULT_REWRITER", "R-C07.4", tr.fq,
              "DefaultConfig.type_rewriter returns DEFAULT_REWRITER", construct="; ".join(norm(n.ast) for n, _ in rets))
    noop = repo.method(repo.cls(TY, "NoOpRewriter"), "rewrite")
    rets = returns_of(noop)
    ctx.check(len(rets) == 1 and dotted(rets[0][1]) == noop.positional_params()[1] and len(noop.node.body) == 1, "R-C07.4", noop.fq,
              "NoOpRewriter returns its input", construct=norm(noop.node.body[-1]))
    # the default chain composed abstractly on every input
    if names:
        w = TY + ".DEFAULT_REWRITER"
        for u in RW.union_inputs():
            cur: V = u
            failed = None
            for cn, attrs in names:
                nxt = _dispatch(repo, cn, attrs, cur)
                if isinstance(nxt, R) and nxt.kind == "raises":
                    failed = f"{cn} raises {nxt.fields['what'].v} on {show(cur)}"
                    break
                cur = nxt
            if failed:
                ctx.violate("R-C07.2", w, f"{show(u)}: {failed}", "the default chain raises")
                continue
            bad = [m for m in members(u) if not admits(cur, m)]
            ctx.check(not bad, "R-C07.1", w, "the default chain's result admits every member of its input",
                      construct=f"{show(u)} -> {show(cur)} no longer admits {', '.join(show(b) for b in bad)}")


def rule_container_recursion(ctx: Ctx, repo: Repo) -> None:
    """TypeRewriter._rewrite_container rewrites every argument, in order, and keeps the container kind."""
    ci = repo.cls(TY, "TypeRewriter")
    fi = repo.method(ci, "_rewrite_container")
    ctx.functions.add(fi.fq)
    ps = fi.positional_params()
    for origin, args in (("List", (RW.INT,)), ("Dict", (RW.STR, RW.INT)), ("Tuple", (RW.INT, RW.STR, RW.INT)), ("Tuple", ()), ("DefaultDict", (RW.STR, g("List", RW.INT))),
                         ("Tuple", (RW.INT, RW.ELL))):  # Tuple[int, ...] (what RewriteLargeUnion makes of many tuples): the `...` is an argument like any other
        t = g(origin, *args)
        sc = RewriterScenario(repo, "TypeRewriter", "_rewrite_container", {})
        base = sc.call_hook
        def hook(call, fname, fval, a, kw, st, _b=base):
            if isinstance(fval, S) and fval.name == "self" and isinstance(call.func, ast.Attribute) and call.func.attr == "rewrite":
                return R("rewritten", of=a[0])
            return _b(call, fname, fval, a, kw, st)
        sc.ri.call_hook = hook
        res = sc.result({ps[1]: S("mod:typing." + origin), ps[2]: t})
        want = R("generic", origin=K(origin), args=K(tuple(R("rewritten", of=a) for a in args)))
        ctx.check(res == want, "R-C07.4", fi.fq, "container recursion rewrites every argument, in order, and keeps the kind (empty tuple preserved)",
                  construct=f"{show(t)} -> {res if not isinstance(res, R) or res.kind != 'generic' else show(res)}")
    # a generic that is not from typing, or has no __args__, is returned unchanged
    t = R("generic", origin=K("Tuple"), args=K(None))
    res = RewriterScenario(repo, "TypeRewriter", "_rewrite_container", {}).result({ps[1]: S("mod:typing.Tuple"), ps[2]: t})
    ctx.check(res == t, "R-C07.4", fi.fq, "a bare alias without arguments is returned unchanged", construct=f"bare Tuple -> {res}")


def run(ctx: Ctx, repo: Repo, tier: str) -> None:
    ctx.trust("subtype oracle on abstract types: class C admits D iff C is in D's MRO; Union admits its members; generics are compared "
              "argument-wise (covariantly); Tuple[V, ...] admits every Tuple of Vs incl. the empty one; C[Any,..] (an empty container) is "
              "admitted by every C[...]; Iterator[Y] admits Generator[Y, S, R]; Any and object admit everything",
              "typing.Union flattens, removes duplicates and unwraps a single member",
              "issubclass()/inspect.getmro() raise TypeError/AttributeError on non-classes; generic aliases have no __bases__/__mro__; "
              "Tuple[()].__args__ == () and bare Tuple has no __args__ (CPython >= 3.11)")
    ctx.assume("members of the union are leaves for self.rewrite (inner recursion is decided by the container-recursion rule)")
    # a construct outside one rule's scenarios must not silence the others (a violation found by any of them is reported)
    ctx.attempt(rule_rewriters, ctx, repo, tier)
    ctx.attempt(rule_no_memory, ctx, repo)
    ctx.attempt(rule_chain, ctx, repo)
    ctx.attempt(rule_container_recursion, ctx, repo)
    ctx.attempt(rule_dispatch, ctx, repo)
    ctx.attempt(rule_nested, ctx, repo)
    from .compat_rules import compat_predicates
    compat_predicates(ctx, repo, "R-C07.5", ("is_generic_of", "is_union", "is_generic", "is_any", "is_typed_dict", "types_equal"))
    ctx.settle()
