#!/venv/bin/python
"""Regenerate /verif/MANIFEST.json from the rule modules that exist (rules/cNN.py).
A property without a rule module is listed under not_applicable with the reason given in
NOT_APPLICABLE below (or 'check not built yet')."""
import importlib, json, os, subprocess, sys
HERE = os.path.dirname(os.path.dirname(os.path.abspath(__file__)))
sys.path.insert(0, HERE)
sys.dont_write_bytecode = True

NOT_APPLICABLE = {}

def main():
    props = [json.loads(l) for l in open(os.path.join(HERE, "properties.jsonl"))]
    checks, na = [], []
    for p in props:
        pid = p["id"]
        path = os.path.join(HERE, "rules", pid.lower() + ".py")
        if os.path.exists(path) and pid not in NOT_APPLICABLE:
            m = importlib.import_module("rules." + pid.lower())
            checks.append({
                "property_id": pid,
                "quick_cmd": f"./check {pid} --tier quick",
                "thorough_cmd": f"./check {pid} --tier thorough",
                "evidence_file": f"/verif/evidence/{pid}.json",
                "replay_cmd_template": f"./check {pid} --tier quick  # replay file {{path}} names rule, function and construct",
                "engine": "mtsa",
                "level_claimed": {
                    "category": getattr(m, "LEVEL", "other"),
                    "text": getattr(m, "LEVEL_TEXT", m.EXPLANATION),
                    "design_ref": f"DESIGN.md section 1, {pid}",
                },
                "level_note": getattr(m, "LEVEL_NOTE", "trusted base: CPython semantics of the constructs analysed and the platform catalogue listed in the evidence file; decides the named structural clauses only, not the runtime behaviour as a whole"),
                "technique": getattr(m, "TECHNIQUE", "static analysis (ast + CFG + abstract interpretation)"),
            })
        else:
            na.append({"property_id": pid, "reason": NOT_APPLICABLE.get(pid, "check not built yet (work in progress; see DESIGN.md for the planned static rules)")})
    commits = subprocess.run(["git", "-C", "/repo", "log", "--format=%h %s", "1edaaae..HEAD"], capture_output=True, text=True).stdout.strip().splitlines()
    man = {
        "version": 1,
        "setup_cmd": "true",
        "hooks": {
            "guard": "MONKEYTYPE_VERIF",
            "enable": "none needed: every check is a static analysis of /repo's source text; no hook or instrumentation is compiled into the repository",
            "baseline_off_cmd": "cd /repo && /venv/bin/python -m pytest -ra -q -p no:cacheprovider --timeout=900 --continue-on-collection-errors",
            "source_commits": [c for c in commits if " fix:" in " " + c],
            "add_only": True,
        },
        "engines": [{
            "name": "mtsa",
            "path": "/verif/mtsa",
            "serves_properties": [c["property_id"] for c in checks],
            "kind_free_text": "repository-specific static analyser: source index, statement CFG with condition atoms / guards / dominance / reaching definitions, small abstract interpreter over finite domains, embedded-SQL and template analyses; stdlib only, runs under /venv/bin/python; never imports or executes /repo code",
        }],
        "checks": checks,
        "notes": "All checks are static (family: static analysis). Exit 0 = all rule instances hold (KNOWN-FINDING lines for recorded defects), 1 = unlisted violation with VIOLATION line, 2 = ANALYSIS-ERROR (analysis could not run). hooks.source_commits lists the unguarded 'fix:' commits (no hook commits exist).",
        "not_applicable": na,
    }
    json.dump(man, open(os.path.join(HERE, "MANIFEST.json"), "w"), indent=1)
    print("checks:", [c["property_id"] for c in checks], "n/a:", [n["property_id"] for n in na])

main()
