"""C11: a source annotation written as a PEP 604 union (`X | Y`, an instance of types.UnionType) reaches the renderer under the
default REPLICATE strategy.  get_imports_for_annotation returned no imports for it (it is neither a class nor a typing generic), so
the stub used names it did not provide: the class of another module (`pk.other.Bar`), the module's own class with its full module
path (`pk.mod.User`: the own-module prefix is only stripped for modules that are in the import map), and `Union` when a parameter
defaulting to None makes render_parameter wrap the annotation in Optional[...] (typing turns `Optional[int | Bar]` into
Optional[Union[int, Bar]]).

Run by hand:  /venv/bin/python /verif/witness/c11_pep604_union.py   (exit 0 = every name the stub uses is provided)"""
import ast, builtins, os, sys, tempfile, textwrap

sys.path.insert(0, os.environ.get("MT_REPO", "/repo"))
d = tempfile.mkdtemp()
os.makedirs(os.path.join(d, "pk"))
open(os.path.join(d, "pk", "__init__.py"), "w").close()
open(os.path.join(d, "pk", "other.py"), "w").write("class Bar: pass\n")
cases = {
    "m1": "import pk.other\ndef f(x: int | pk.other.Bar): ...\n",
    "m2": "class User: pass\ndef f(y: User | None): ...\n",
    "m3": "import pk.other\ndef f(w: int | pk.other.Bar = None): ...\n",
    "m4": "import pk.other\nclass User: pass\ndef f(a) -> User | pk.other.Bar: ...\n",
}
for n, src in cases.items():
    open(os.path.join(d, "pk", n + ".py"), "w").write(src)
sys.path.insert(0, d)
import importlib
from monkeytype.stubs import build_module_stubs_from_traces
from monkeytype.tracing import CallTrace

bad = 0
for n in cases:
    mod = importlib.import_module("pk." + n)
    stub = build_module_stubs_from_traces([CallTrace(mod.f, {}, None)], 0)["pk." + n].render()
    tree = ast.parse(stub)
    provided = set(dir(builtins)) | {x.name for x in ast.walk(ast.parse(cases[n])) if isinstance(x, ast.ClassDef)}
    for x in ast.walk(tree):
        if isinstance(x, ast.ImportFrom):
            provided |= {a.asname or a.name for a in x.names}
        elif isinstance(x, ast.Import):
            provided |= {(a.asname or a.name).split(".")[0] for a in x.names}
    used = set()
    for fn in ast.walk(tree):
        if isinstance(fn, ast.FunctionDef):
            for a in fn.args.args + [fn]:
                ann = a.annotation if isinstance(a, ast.arg) else a.returns
                if ann is not None:
                    for y in ast.walk(ann):
                        if isinstance(y, ast.Name):
                            used.add(y.id)
    missing = used - provided
    print(f"--- pk.{n}\n{textwrap.indent(stub, '    ')}\n    names used but not provided: {sorted(missing) or 'none'}")
    bad += bool(missing)
sys.exit(1 if bad else 0)
