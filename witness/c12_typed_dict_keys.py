"""Witness for R-C12.7 and R-C03.1 (run by hand: PYTHONPATH=/repo /venv/bin/python witness/c12_typed_dict_keys.py).
1. With a TypedDict size limit > 0 a dict with a string key that is not an identifier ("my-key") or is a reserved word
   ("class") became a TypedDict; the generated class has the line `my-key: int` - the stub is not valid Python.
2. get_dict_type admitted instances of str SUBCLASSES as TypedDict keys and re-built a dict from them: their
   user-defined __hash__ runs inside the tracer."""
import ast, sys
from monkeytype.tracing import CallTrace
from monkeytype.typing import get_type
from monkeytype.stubs import build_module_stubs_from_traces
bad = 0
def f(cfg): return None
for key in ("my-key", "class"):
    t = CallTrace(f, {"cfg": get_type({key: 1}, 3)}, type(None))
    text = build_module_stubs_from_traces([t], 3)[f.__module__].render()
    try:
        ast.parse(text); print(repr(key), "-> stub parses")
    except SyntaxError as e:
        print("WITNESSED: key", repr(key), "-> the stub does not parse:", e.text.strip() if e.text else e); bad = 1
journal = []
class S(str):
    def __hash__(self): journal.append("hash"); return str.__hash__(self)
d = {S("a"): 1, S("b"): 2}
journal.clear()
get_type(d, 10)
print("user-defined __hash__ calls during get_type:", len(journal))
if journal:
    print("WITNESSED: the tracer's type collection ran S.__hash__"); bad = 1
print("OK" if not bad else "FAILED"); sys.exit(bad)
