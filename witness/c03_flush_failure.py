"""Witness for R-C03.7 (run by hand: PYTHONPATH=/repo /venv/bin/python witness/c03_flush_failure.py).
A logger whose flush() fails (database locked, disk full) made the traced block raise that error - on the exception exit
path it even replaced the program's own exception."""
import sys
from monkeytype.tracing import CallTraceLogger, trace_calls
class L(CallTraceLogger):
    def log(self, t): pass
    def flush(self): raise OSError("database is locked")
def f(): return 1
bad = 0
try:
    with trace_calls(L(), 0):
        f()
    print("normal exit: block ended normally")
except OSError as e:
    print("WITNESSED: flush failure reached the program:", e); bad = 1
try:
    with trace_calls(L(), 0):
        raise ValueError("the program's own error")
except ValueError:
    print("exception exit: the program's own exception came out")
except OSError as e:
    print("WITNESSED: flush failure replaced the program's exception:", e); bad = 1
print("OK" if not bad else "FAILED"); sys.exit(bad)
