"""Witness for the known finding R-C11.3 `two different generated TypedDict classes of one stub get the same name`
(run by hand: PYTHONPATH=/repo /venv/bin/python witness/c11_typed_dict_names.py; exits 1 while the defect is present)."""
import sys
from monkeytype.tracing import CallTrace
from monkeytype.typing import get_type
from monkeytype.stubs import build_module_stubs_from_traces
def f(a): return None
v = (({"a": 1}, {"b": "s"}), ({"c": 1.0}, {"d": None}))
text = build_module_stubs_from_traces([CallTrace(f, {"a": get_type(v, 10)}, type(None))], 10)[f.__module__].render()
print(text)
names = [l.split("(")[0].split()[1] for l in text.splitlines() if l.startswith("class ")]
dup = sorted({n for n in names if names.count(n) > 1})
if dup:
    print("WITNESSED: defined twice with different fields:", dup); sys.exit(1)
print("OK")
